//go:build verif

// Contracts for package query, checked by /verif (csvqvc). Comment-only: with the build tag off this
// file is not part of the package; with it on it adds nothing but the package clause.
package query

// ---------------------------------------------------------------------------------------------
// B2: worker partition (C12, C13, C03)

//@ spec def rrCalc(n int, L int) int = L / n
//@ spec def rrStart(n int, L int, i int) int = ite(L <= i * rrCalc(n, L), 0, i * rrCalc(n, L))
//@ spec def rrEnd(n int, L int, i int) int = ite(L <= i * rrCalc(n, L), 0, ite(i == n-1, L, (i+1) * rrCalc(n, L)))

//@ func (*GoroutineTaskManager).RecordRange
//@   property C12 C13 C03
//@   safety
//@   requires m != nil && m.Number >= 1 && m.recordLen >= 0
//@   requires 0 <= routineIndex && routineIndex < m.Number
//@   ensures [functional-start] result0 == rrStart(m.Number, m.recordLen, routineIndex)
//@   ensures [functional-end] result1 == rrEnd(m.Number, m.recordLen, routineIndex)
//@   ensures [in-range] 0 <= result0 && result0 <= result1 && result1 <= m.recordLen
//@   modifies nothing

// every row index belongs to the range of exactly one worker, for every worker count
//@ lemma rr_cover: forall(n, 1, MaxInt64, forall(L, 0, MaxInt64, forall(k, 0, L,
//@     rrStart(n, L, ite(rrCalc(n, L) == 0, n-1, min(k / rrCalc(n, L), n-1))) <= k &&
//@     k < rrEnd(n, L, ite(rrCalc(n, L) == 0, n-1, min(k / rrCalc(n, L), n-1))))))
//@   property C12 C13
//@ lemma rr_disjoint: forall(n, 1, MaxInt64, forall(L, 0, MaxInt64, forall(i, 0, n, forall(j, 0, n, forall(k, 0, L,
//@     i != j && rrStart(n, L, i) <= k && k < rrEnd(n, L, i) ==> !(rrStart(n, L, j) <= k && k < rrEnd(n, L, j)))))))
//@   property C12 C13
//@ lemma rr_ordered: forall(n, 1, MaxInt64, forall(L, 0, MaxInt64, forall(i, 0, n, forall(j, 0, n,
//@     i < j && rrStart(n, L, i) < rrEnd(n, L, i) && rrStart(n, L, j) < rrEnd(n, L, j) ==> rrEnd(n, L, i) <= rrStart(n, L, j)))))
//@   property C12 C13

// ---------------------------------------------------------------------------------------------
// C16: cursors

//@ spec def cursorWf(c *Cursor) bool = c != nil && c.mtx != nil &&
//@     (c.view != nil ==> -1 <= c.index && c.index <= len(c.view.RecordSet) &&
//@        forall(r, 0, len(c.view.RecordSet), forall(j, 0, len(c.view.RecordSet[r]), len(c.view.RecordSet[r][j]) >= 1)))
//@ spec def fetchTarget(pos int, number int, idx int, n int) int =
//@     ite(pos == parser.ABSOLUTE, number, ite(pos == parser.RELATIVE, idx + number, ite(pos == parser.FIRST, 0,
//@     ite(pos == parser.LAST, n - 1, ite(pos == parser.PRIOR, idx - 1, idx + 1)))))

//@ func (*Cursor).Fetch
//@   property C16 C19
//@   safety
//@   requires cursorWf(c)
//@   ensures [closed-is-error] old(c.view) == nil ==> result1 != nil && result0 == nil && c.index == old(c.index)
//@   ensures [open-no-error] old(c.view) != nil ==> result1 == nil
//@   ensures [snapshot-kept] c.view == old(c.view)
//@   ensures [pointer] old(c.view) != nil ==> c.index == max(-1, min(len(c.view.RecordSet), fetchTarget(position, number, old(c.index), len(c.view.RecordSet))))
//@   ensures [out-of-range-nil] old(c.view) != nil && !(0 <= fetchTarget(position, number, old(c.index), len(c.view.RecordSet)) && fetchTarget(position, number, old(c.index), len(c.view.RecordSet)) < len(c.view.RecordSet)) ==> result0 == nil
//@   ensures [row-len] old(c.view) != nil && 0 <= c.index && c.index < len(c.view.RecordSet) ==> result0 != nil && len(result0) == len(c.view.RecordSet[c.index])
//@   ensures [row-cells] old(c.view) != nil && 0 <= c.index && c.index < len(c.view.RecordSet) ==> forall(k, 0, len(result0), result0[k] == c.view.RecordSet[c.index][k][0])
//@   ensures [wf] cursorWf(c)
//@   loop 1 invariant 0 <= $i && $i <= len(list) && len(list) == len(c.view.RecordSet[c.index]) && fresh(list)
//@   loop 1 invariant c.view != nil && c.view == old(c.view) && 0 <= c.index && c.index < len(c.view.RecordSet)
//@   loop 1 invariant forall(k, 0, $i, list[k] == c.view.RecordSet[c.index][k][0])
//@   loop 1 modifies list[*]
//@   modifies c.index, c.fetched
