//go:build verif

// Contracts for package option, checked by /verif (csvqvc). Comment-only.
package option

//@ spec func strTrim(s string) string
//@ func TrimSpace
//@   trusted assumed: the result is the text without leading and trailing white space, a function of the text alone
//@   ensures result == strTrim(s)
//@   modifies nothing
