//go:build verif

// Contracts for package value, checked by /verif (csvqvc). Comment-only: with the build tag off this
// file is not part of the package; with it on it adds nothing but the package clause.
package value

// The singletons created by package initialisation (type.go): non-nil, pairwise distinct, with fixed contents.
//@ invariant value_singletons: null != nil && ternaryTrue != nil && ternaryFalse != nil && ternaryUnknown != nil &&
//@     booleanTrue != nil && booleanFalse != nil && ternaryTrue != ternaryFalse && ternaryTrue != ternaryUnknown &&
//@     ternaryFalse != ternaryUnknown && booleanTrue != booleanFalse &&
//@     ternaryTrue.value == ternary.TRUE && ternaryFalse.value == ternary.FALSE && ternaryUnknown.value == ternary.UNKNOWN &&
//@     booleanTrue.value && !booleanFalse.value

// ---------------------------------------------------------------------------------------------
// B1: readings of a value (docs/_posts/2006-01-02-value.md, "Automatic Type Casting")
// Each reading is a specification function over the value and the heap locations that hold its contents;
// the text-parsing steps are the (uninterpreted, deterministic) standard-library functions the code calls.

//@ spec opaque intStrictOk(p Primary) bool = is(p, *Integer) ||
//@     (is(p, *String) && proj(strconv.ParseInt(option.strTrim(as(p, *String).literal), 10, 64), 1) == nil)
//@ spec opaque intStrictOf(p Primary) int64 = ite(is(p, *Integer), as(p, *Integer).value,
//@     proj(strconv.ParseInt(option.strTrim(as(p, *String).literal), 10, 64), 0))

//@ spec opaque floatOk(p Primary) bool = is(p, *Integer) || is(p, *Float) ||
//@     (is(p, *String) && proj(strconv.ParseFloat(option.strTrim(as(p, *String).literal), 64), 1) == nil)
//@ spec opaque floatOf(p Primary) float64 = ite(is(p, *Integer), float64(as(p, *Integer).value), ite(is(p, *Float), as(p, *Float).value,
//@     proj(strconv.ParseFloat(option.strTrim(as(p, *String).literal), 64), 0)))

// ToInteger (non-strict): floats are truncated, float-looking text too; NaN and infinities have no integer reading
//@ spec opaque intLooseOk(p Primary) bool = is(p, *Integer) ||
//@     (is(p, *Float) && !isNaN(as(p, *Float).value) && !isInf(as(p, *Float).value)) ||
//@     (is(p, *String) && (proj(strconv.ParseInt(option.strTrim(as(p, *String).literal), 10, 64), 1) == nil ||
//@                         proj(strconv.ParseFloat(option.strTrim(as(p, *String).literal), 64), 1) == nil))
//@ spec opaque intLooseOf(p Primary) int64 = ite(is(p, *Integer), as(p, *Integer).value,
//@     ite(is(p, *Float), int64(as(p, *Float).value),
//@     ite(proj(strconv.ParseInt(option.strTrim(as(p, *String).literal), 10, 64), 1) == nil,
//@         proj(strconv.ParseInt(option.strTrim(as(p, *String).literal), 10, 64), 0),
//@         int64(proj(strconv.ParseFloat(option.strTrim(as(p, *String).literal), 64), 0)))))

//@ func ToIntegerStrictly
//@   property C06 C14
//@   reveal intStrictOk intStrictOf
//@   ensures [reading] intStrictOk(p) ==> is(result, *Integer) && as(result, *Integer).value == intStrictOf(p)
//@   ensures [fresh] intStrictOk(p) ==> fresh(result)
//@   ensures [null-otherwise] !intStrictOk(p) ==> result == null
//@   modifies nothing

//@ func ToInteger
//@   property C06 C14
//@   reveal intLooseOk intLooseOf
//@   ensures [reading] intLooseOk(p) ==> is(result, *Integer) && as(result, *Integer).value == intLooseOf(p)
//@   ensures [fresh] intLooseOk(p) ==> fresh(result)
//@   ensures [null-otherwise] !intLooseOk(p) ==> result == null
//@   modifies nothing

//@ func ToFloat
//@   property C06 C14
//@   reveal floatOk floatOf
//@   ensures [reading] floatOk(p) ==> is(result, *Float) && same(as(result, *Float).value, floatOf(p))
//@   ensures [fresh] floatOk(p) ==> fresh(result)
//@   ensures [null-otherwise] !floatOk(p) ==> result == null
//@   modifies nothing

//@ func IsNull
//@   inline
//@ func Discard
//@   property C14
//@   ensures true
//@   modifies nothing

//@ func compareInteger
//@   property C06
//@   ensures [eq] v1 == v2 ==> result == IsEqual
//@   ensures [lt] v1 < v2 ==> result == IsLess
//@   ensures [gt] v1 > v2 ==> result == IsGreater
//@   modifies nothing

//@ func compareFloat
//@   property C06
//@   ensures [nan] isNaN(v1) || isNaN(v2) ==> result == IsNotEqual
//@   ensures [eq] !isNaN(v1) && !isNaN(v2) && v1 == v2 ==> result == IsEqual
//@   ensures [lt] v1 < v2 ==> result == IsLess
//@   ensures [gt] v1 > v2 ==> result == IsGreater
//@   modifies nothing

// Must-fail canary: a contract that is false on the real code. Every run checks that the solver refutes it.
//@ func compareInteger!canary
//@   property CANARY
//@   ensures [false-claim] result == IsEqual
