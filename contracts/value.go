//go:build verif

// Contracts for package value, checked by /verif (csvqvc). Comment-only: with the build tag off this
// file is not part of the package; with it on it adds nothing but the package clause.
package value

//@ func compareInteger
//@   property C06
//@   ensures [eq] v1 == v2 ==> result == IsEqual
//@   ensures [lt] v1 < v2 ==> result == IsLess
//@   ensures [gt] v1 > v2 ==> result == IsGreater
//@   modifies nothing

//@ func compareFloat
//@   property C06
//@   ensures [nan] isNaN(v1) || isNaN(v2) ==> result == IsNotEqual
//@   ensures [eq] !isNaN(v1) && !isNaN(v2) && v1 == v2 ==> result == IsEqual
//@   ensures [lt] v1 < v2 ==> result == IsLess
//@   ensures [gt] v1 > v2 ==> result == IsGreater
//@   modifies nothing

// Must-fail canary: a contract that is false on the real code. Every run checks that the solver refutes it.
//@ func compareInteger!canary
//@   property CANARY
//@   ensures [false-claim] result == IsEqual
