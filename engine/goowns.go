package main

// goroutineowns <captured variable>: the goroutine body under contract is the only code that touches the variable
// (its cell and, for a slice, the element storage of its type) while it runs, so a channel operation of this goroutine
// (the only points where another goroutine's effects become visible to it) does not change them.
//
// Checked statically (obligation kind goroutineowns): no other function literal of the enclosing function assigns
// the variable (read-only captures are harmless here); the enclosing function itself stores into it only before the go statement that starts the literal;
// neither the enclosing function nor a sibling literal contains, in its own body, a store / append / copy into
// element storage of the same type; this goroutine hands the value to nothing but len, cap, append, copy, indexing and
// assignments back to the variable. Assumed (listed in the evidence): code of other packages reached from sibling
// goroutines cannot reach storage of a repository type that was never handed to it.

import (
	"fmt"
	"go/token"
	"go/types"
	"sort"
	"strings"

	"golang.org/x/tools/go/ssa"
)

// goOwnsKeys returns the heap keys spared across channel operations for the function under verification.
func (ex *Exec) goOwnsKeys() []string {
	if ex.topC == nil || len(ex.topC.GoOwns) == 0 || ex.topFn == nil {
		return nil
	}
	var keys []string
	for _, name := range ex.topC.GoOwns {
		for _, v := range ex.topFn.FreeVars {
			if v.Name() != name {
				continue
			}
			t := derefType(v.Type())
			keys = append(keys, refKeys(t)...)
			if sl, ok := t.Underlying().(*types.Slice); ok {
				keys = append(keys, elemKeys(sl.Elem())...)
			}
		}
	}
	return keys
}

func (ex *Exec) goOwnsScan(fname string, st *State) {
	if ex.topC == nil || len(ex.topC.GoOwns) == 0 || ex.topFn == nil {
		return
	}
	fn := ex.topFn
	parent := fn.Parent()
	for _, name := range ex.topC.GoOwns {
		var fv *ssa.FreeVar
		idx := -1
		for i, v := range fn.FreeVars {
			if v.Name() == name {
				fv, idx = v, i
			}
		}
		if fv == nil || parent == nil {
			ex.eng.bindingErrors = append(ex.eng.bindingErrors, fmt.Sprintf("%s: goroutineowns %s: not a captured variable of a function literal", fname, name))
			continue
		}
		var bad []string
		// the cell in the parent and the go statement that starts this literal
		var cell ssa.Value
		var goPos token.Pos
		for _, b := range parent.Blocks {
			for _, in := range b.Instrs {
				mc, ok := in.(*ssa.MakeClosure)
				if !ok || mc.Fn != fn {
					continue
				}
				cell = mc.Bindings[idx]
				for _, r := range *mc.Referrers() {
					if g, ok := r.(*ssa.Go); ok {
						goPos = g.Pos()
					}
				}
			}
		}
		if cell == nil || !goPos.IsValid() {
			bad = append(bad, "the literal is not started by a go statement of its enclosing function")
		}
		t := derefType(fv.Type())
		var ek map[string]bool
		if sl, ok := t.Underlying().(*types.Slice); ok {
			ek = map[string]bool{}
			for _, k := range elemKeys(sl.Elem()) {
				ek[k] = true
			}
		}
		ownBodyElemWrites := func(f *ssa.Function) {
			for _, b := range f.Blocks {
				for _, in := range b.Instrs {
					var ks []string
					switch i := in.(type) {
					case *ssa.Store:
						if l, k := addrKeys(i.Addr); l == nil {
							ks = k
						}
					case *ssa.Call:
						if bi, ok := i.Call.Value.(*ssa.Builtin); ok && (bi.Name() == "append" || bi.Name() == "copy") {
							if sl, ok := i.Call.Args[0].Type().Underlying().(*types.Slice); ok {
								ks = elemKeys(sl.Elem())
							}
						}
					}
					for _, k := range ks {
						if ek[k] {
							bad = append(bad, fmt.Sprintf("%s writes element storage %s (%s)", shortName(f.String()), k, ex.eng.fset.Position(in.Pos())))
						}
					}
				}
			}
		}
		if cell != nil {
			for _, r := range *cell.Referrers() {
				switch i := r.(type) {
				case *ssa.MakeClosure:
					if i.Fn != fn {
						// a sibling that only reads the variable cannot change it
						sf := i.Fn.(*ssa.Function)
						for bi, b := range i.Bindings {
							if b != cell {
								continue
							}
							for _, r := range *sf.FreeVars[bi].Referrers() {
								switch u := r.(type) {
								case *ssa.UnOp, *ssa.DebugRef:
								default:
									bad = append(bad, fmt.Sprintf("%s captures %s and does more than read it (%T)", shortName(sf.String()), name, u))
								}
							}
						}
					}
				case *ssa.Store:
					if i.Addr == cell && i.Pos() > goPos {
						bad = append(bad, fmt.Sprintf("%s assigns %s after the go statement (%s)", shortName(parent.String()), name, ex.eng.fset.Position(i.Pos())))
					}
				case *ssa.UnOp, *ssa.DebugRef:
				default:
					bad = append(bad, fmt.Sprintf("%s uses the address of %s (%T)", shortName(parent.String()), name, r))
				}
			}
		}
		if ek != nil {
			ownBodyElemWrites(parent)
			var walk func(f *ssa.Function)
			walk = func(f *ssa.Function) {
				for _, a := range f.AnonFuncs {
					if a == fn {
						continue
					}
					ownBodyElemWrites(a)
					walk(a)
				}
			}
			walk(parent)
		}
		// this goroutine keeps the value to itself
		for _, r := range *fv.Referrers() {
			ld, ok := r.(*ssa.UnOp)
			if !ok {
				if s, ok := r.(*ssa.Store); ok && s.Addr == ssa.Value(fv) {
					continue
				}
				if _, ok := r.(*ssa.DebugRef); ok {
					continue
				}
				bad = append(bad, fmt.Sprintf("the goroutine uses the address of %s (%T)", name, r))
				continue
			}
			for _, u := range *ld.Referrers() {
				switch i := u.(type) {
				case *ssa.Call:
					if bi, ok := i.Call.Value.(*ssa.Builtin); ok && (bi.Name() == "len" || bi.Name() == "cap" || bi.Name() == "append" || bi.Name() == "copy") {
						continue
					}
					bad = append(bad, fmt.Sprintf("the goroutine passes %s to %s", name, shortName(i.Call.Value.String())))
				case *ssa.IndexAddr, *ssa.Slice, *ssa.DebugRef, *ssa.BinOp:
				case *ssa.Store:
					if i.Addr != ssa.Value(fv) && i.Val == ssa.Value(ld) {
						if _, isLocal := i.Addr.(*ssa.Alloc); !isLocal {
							bad = append(bad, fmt.Sprintf("the goroutine stores %s elsewhere (%s)", name, ex.eng.fset.Position(i.Pos())))
						}
					}
				default:
					bad = append(bad, fmt.Sprintf("the goroutine hands %s to %T", name, u))
				}
			}
		}
		goal := True
		text := "only this goroutine touches " + name + " (and the element storage of its type) while it runs: no sibling literal assigns it, the enclosing function assigns it only before the go statement, nobody else writes such element storage in its own body, and the goroutine keeps the value to itself"
		if len(bad) > 0 {
			goal = False
			text += " - VIOLATED: " + strings.Join(bad, "; ")
		}
		ex.prove(fname, st, "goroutineowns", name, goal, text, fn.Pos())
	}
}

// writesthrough <captured variables>: the worker literal stores only into storage it reaches through these captured
// variables (and into its own locals and allocations). A scratch buffer or a scope hoisted out of the worker into the
// enclosing function becomes a captured variable the worker writes through - shared by every worker - and is reported.
// Static scan of the literal's own instructions (obligation kind writesthrough): for every store, append-assignment target,
// map update and copy destination the address chain (field, index, slice, load) is followed back to its root.
func (ex *Exec) writesThroughScan(fname string, st *State) {
	if ex.topC == nil || ex.topC.WritesThrough == nil || ex.topFn == nil {
		return
	}
	fn := ex.topFn
	allowed := map[string]bool{}
	for _, n := range ex.topC.WritesThrough {
		allowed[n] = true
	}
	for n := range allowed {
		found := false
		for _, v := range fn.FreeVars {
			if v.Name() == n {
				found = true
			}
		}
		if !found {
			ex.eng.bindingErrors = append(ex.eng.bindingErrors, fmt.Sprintf("%s: writesthrough %s: not a captured variable", fname, n))
		}
	}
	var root func(v ssa.Value, depth int) *ssa.FreeVar
	root = func(v ssa.Value, depth int) *ssa.FreeVar {
		if depth > 40 {
			return nil
		}
		switch x := v.(type) {
		case *ssa.FreeVar:
			return x
		case *ssa.FieldAddr:
			return root(x.X, depth+1)
		case *ssa.IndexAddr:
			return root(x.X, depth+1)
		case *ssa.Field:
			return root(x.X, depth+1)
		case *ssa.Index:
			return root(x.X, depth+1)
		case *ssa.Slice:
			return root(x.X, depth+1)
		case *ssa.UnOp:
			if x.Op.String() == "*" {
				return root(x.X, depth+1)
			}
		case *ssa.ChangeType:
			return root(x.X, depth+1)
		case *ssa.Convert:
			return root(x.X, depth+1)
		case *ssa.Phi:
			for _, e := range x.Edges {
				if r := root(e, depth+1); r != nil {
					return r
				}
			}
		}
		return nil
	}
	bad := map[string]string{}
	note := func(addr ssa.Value, direct bool, in ssa.Instruction) {
		fv := root(addr, 0)
		if fv == nil {
			return
		}
		if direct {
			// assignment to the captured variable itself
			if a, ok := addr.(*ssa.FreeVar); ok && a == fv {
				if !allowed[fv.Name()] {
					bad[fv.Name()] = ex.eng.fset.Position(in.Pos()).String()
				}
				return
			}
		}
		if !allowed[fv.Name()] {
			if _, seen := bad[fv.Name()]; !seen {
				bad[fv.Name()] = ex.eng.fset.Position(in.Pos()).String()
			}
		}
	}
	for _, b := range fn.Blocks {
		for _, in := range b.Instrs {
			switch i := in.(type) {
			case *ssa.Store:
				note(i.Addr, true, in)
			case *ssa.MapUpdate:
				note(i.Map, false, in)
			case *ssa.Call:
				if bi, ok := i.Call.Value.(*ssa.Builtin); ok {
					switch bi.Name() {
					case "copy", "delete", "clear":
						note(i.Call.Args[0], false, in)
					}
				}
			}
		}
	}
	var names []string
	for n := range bad {
		names = append(names, n)
	}
	sort.Strings(names)
	goal := True
	text := "the worker stores only into its own locals and allocations and through the captured variables " + strings.Join(ex.topC.WritesThrough, ", ")
	if len(names) > 0 {
		goal = False
		var parts []string
		for _, n := range names {
			parts = append(parts, n+" ("+bad[n]+")")
		}
		text += " - VIOLATED: it also stores through " + strings.Join(parts, ", ")
	}
	ex.prove(fname, st, "writesthrough", strings.Join(ex.topC.WritesThrough, ","), goal, text, fn.Pos())
}
