package main

// Replay of solver models against the real code (go test -overlay); adapters are added per function family.

func replayObligation(eng *Engine, r oblResult, verif string) (bool, string) {
	if r.res.Status != "sat" {
		return false, "no model: solver answered " + r.res.Status
	}
	return false, "no replay adapter for " + r.o.Func + "; the model is in solver_output"
}
