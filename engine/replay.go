package main

// Replay of solver models against the real code.
//
// One adapter, for the family "receiver / parameters built from scalars": integers, booleans, runes, slices of
// integers or runes, and pointers to repository structs whose fields are of those kinds (other fields keep their zero
// value). For such a function the entry state of a model is a concrete Go value, so the model can be run:
//   - safety obligations (index, slice, nil, division, make, type assertion, nil map): the replay confirms the
//     violation when the real function panics on the model's input;
//   - termination obligations (decreases): the replay confirms it when the real function does not return within 3 s.
// Functional postconditions are not replayed (the contract language is not executable); their violations are reported
// with "no-failing-input-found" and the model in the replay file.
//
// The test is injected with `go test -overlay` (nothing is written into the repository).

import (
	"bytes"
	"context"
	"encoding/json"
	"fmt"
	"go/types"
	"os"
	"os/exec"
	"path/filepath"
	"regexp"
	"sort"
	"strconv"
	"strings"
	"time"

	"golang.org/x/tools/go/ssa"
)

const replayMaxElems = 48

type replaySlot struct {
	name string // observation constant
	term *Term
}

type replayPlan struct {
	slots []replaySlot
	build func(vals map[string]string) (setup []string, args []string, ok bool)
}

func scalarKind(t types.Type) string {
	b, ok := t.Underlying().(*types.Basic)
	if !ok {
		return ""
	}
	switch {
	case b.Info()&types.IsInteger != 0:
		return "int"
	case b.Info()&types.IsBoolean != 0:
		return "bool"
	}
	return ""
}

// goLit renders a model value as a Go literal of type t ("" when it does not fit).
func goLit(val string, t types.Type, qual func(types.Type) string) string {
	switch scalarKind(t) {
	case "bool":
		if val == "true" || val == "false" {
			return val
		}
		return ""
	case "int":
		v := strings.ReplaceAll(strings.ReplaceAll(strings.ReplaceAll(val, "(", ""), ")", ""), " ", "")
		if _, err := strconv.ParseInt(v, 10, 64); err != nil {
			if _, err2 := strconv.ParseUint(v, 10, 64); err2 != nil {
				return ""
			}
		}
		return fmt.Sprintf("%s(%s)", qual(t), v)
	}
	return ""
}

func modelInt(val string) (int64, bool) {
	v := strings.ReplaceAll(strings.ReplaceAll(strings.ReplaceAll(val, "(", ""), ")", ""), " ", "")
	n, err := strconv.ParseInt(v, 10, 64)
	return n, err == nil
}

func replayObligation(eng *Engine, r oblResult, verif string) (bool, string) {
	if r.res.Status != "sat" {
		return false, "no model: solver answered " + r.res.Status
	}
	o := r.o
	expect := ""
	switch o.Kind {
	case "bounds", "slice", "nil", "div", "makeslice", "typeassert", "mapwrite":
		expect = "panic"
	case "decreases":
		expect = "hang"
	default:
		return false, "obligations of kind " + o.Kind + " are not replayed (the contract language is not executable); the model is in solver_output"
	}
	ex := o.exec
	if ex == nil || ex.topFrame == nil || ex.topFn == nil || ex.topFn.Pkg == nil {
		return false, "no replay adapter for " + o.Func
	}
	fn := ex.topFn
	if fn.Parent() != nil || len(fn.FreeVars) > 0 {
		return false, "no replay adapter for closures (" + o.Func + ")"
	}
	pkg := fn.Pkg.Pkg
	qual := func(t types.Type) string { return types.TypeString(t, types.RelativeTo(pkg)) }
	fr := ex.topFrame
	entry := fr.entry
	n := 0
	newSlot := func(plan *replayPlan, t *Term) string {
		n++
		name := fmt.Sprintf("obs!%d", n)
		plan.slots = append(plan.slots, replaySlot{name, t})
		return name
	}
	plan := &replayPlan{}
	type builder func(vals map[string]string) (string, bool)
	zero := func(t types.Type) builder {
		return func(map[string]string) (string, bool) {
			switch t.Underlying().(type) {
			case *types.Pointer, *types.Interface, *types.Slice, *types.Map, *types.Signature, *types.Chan:
				return "nil", true
			case *types.Basic:
				if scalarKind(t) == "int" {
					return qual(t) + "(0)", true
				}
				if scalarKind(t) == "bool" {
					return "false", true
				}
				if t.Underlying().(*types.Basic).Info()&types.IsString != 0 {
					return "\"\"", true
				}
				return qual(t) + "(0)", true
			}
			return qual(t) + "{}", true
		}
	}
	exported := func(t types.Type) bool {
		// a value of this type can be spelled from package pkg
		if n, ok := derefType(t).(*types.Named); ok && n.Obj().Pkg() != nil && n.Obj().Pkg() != pkg && !n.Obj().Exported() {
			return false
		}
		return true
	}
	var obs func(t types.Type, comps []*Term, depth int, maxElems int) builder
	obs = func(t types.Type, comps []*Term, depth int, maxElems int) builder {
		if len(plan.slots) > 4000 || depth > 4 || !exported(t) {
			return zero(t)
		}
		switch u := t.Underlying().(type) {
		case *types.Basic:
			if scalarKind(t) == "" || len(comps) != 1 {
				return zero(t)
			}
			name := newSlot(plan, comps[0])
			return func(vals map[string]string) (string, bool) {
				l := goLit(vals[name], t, qual)
				return l, l != ""
			}
		case *types.Slice:
			if len(comps) != 4 {
				return zero(t)
			}
			et := u.Elem()
			keys := elemKeys(et)
			ln := newSlot(plan, comps[2])
			base := newSlot(plan, comps[0])
			var elems []builder
			for i := 0; i < maxElems; i++ {
				var ec []*Term
				for _, k := range keys {
					ec = append(ec, Select(Select(entry.heap.Get(k, keySortReg[k]), comps[0]), Idx(comps[1], IntLit(int64(i)))))
				}
				inner := maxElems
				if inner > 6 {
					inner = 6
				}
				elems = append(elems, obs(et, ec, depth+1, inner))
			}
			return func(vals map[string]string) (string, bool) {
				if b, ok := modelInt(vals[base]); ok && b == 0 {
					return "nil", true
				}
				n, ok := modelInt(vals[ln])
				if !ok || n < 0 || n > int64(len(elems)) {
					return "", false
				}
				var parts []string
				for i := int64(0); i < n; i++ {
					l, ok := elems[i](vals)
					if !ok {
						return "", false
					}
					parts = append(parts, l)
				}
				return fmt.Sprintf("%s{%s}", qual(t), strings.Join(parts, ", ")), true
			}
		case *types.Pointer:
			stt, ok := u.Elem().Underlying().(*types.Struct)
			if !ok || len(comps) != 1 || !exported(u.Elem()) {
				return zero(t)
			}
			ref := comps[0]
			refSlot := newSlot(plan, ref)
			keys := refKeys(u.Elem())
			type fb struct {
				name string
				b    builder
			}
			var fields []fb
			for fi := 0; fi < stt.NumFields(); fi++ {
				f := stt.Field(fi)
				if f.Pkg() != nil && f.Pkg() != pkg && !f.Exported() {
					continue
				}
				off := fieldOffset(stt, fi)
				n := len(layout(f.Type()))
				var fc []*Term
				for j := 0; j < n; j++ {
					k := keys[off+j]
					fc = append(fc, Select(entry.heap.Get(k, keySortReg[k]), ref))
				}
				switch f.Type().Underlying().(type) {
				case *types.Basic, *types.Slice, *types.Pointer:
					fields = append(fields, fb{f.Name(), obs(f.Type(), fc, depth+1, maxElems)})
				}
			}
			elemT := u.Elem()
			return func(vals map[string]string) (string, bool) {
				if r, ok := modelInt(vals[refSlot]); ok && r == 0 {
					return "nil", true
				}
				var parts []string
				for _, f := range fields {
					l, ok := f.b(vals)
					if !ok {
						return "", false
					}
					parts = append(parts, f.name+": "+l)
				}
				return fmt.Sprintf("&%s{%s}", qual(elemT), strings.Join(parts, ", ")), true
			}
		}
		return zero(t)
	}
	var builders []func(vals map[string]string) (string, bool) // one Go expression per parameter
	for i, p := range fn.Params {
		pt := p.Type()
		switch pt.Underlying().(type) {
		case *types.Basic, *types.Slice, *types.Pointer:
			if scalarKind(pt) == "" {
				if _, isBasic := pt.Underlying().(*types.Basic); isBasic {
					return false, fmt.Sprintf("no replay adapter: parameter %s of %s has type %s", p.Name(), o.Func, typeStr(pt))
				}
			}
			builders = append(builders, obs(pt, fr.args[i].C, 0, replayMaxElems))
		case *types.Struct:
			if st, ok := pt.Underlying().(*types.Struct); ok && st.NumFields() == 0 {
				builders = append(builders, zero(pt))
				continue
			}
			return false, fmt.Sprintf("no replay adapter: parameter %s of %s has type %s", p.Name(), o.Func, typeStr(pt))
		default:
			return false, fmt.Sprintf("no replay adapter: parameter %s of %s has type %s", p.Name(), o.Func, typeStr(pt))
		}
	}
	// the model, restricted to what the input is built from
	if ex.hc != nil {
		heapConsts = ex.hc
	}
	var hyps []*Term
	hyps = append(hyps, ex.assumes[:o.NAssume]...)
	hyps = append(hyps, o.Extra...)
	core := append(append([]*Term{}, hyps...), o.PC, Not(o.Goal))
	ax, _ := eng.relevantAxioms(core, "", nil)
	named := map[string]*Term{}
	for _, s := range plan.slots {
		named[s.name] = s.term
	}
	sc := &Script{Asserts: append(append(append([]*Term{}, ax...), hyps...), o.PC, Not(o.Goal)), Named: named}
	dir, err := os.MkdirTemp("", "csvqvc-replay-")
	if err != nil {
		return false, "replay: " + err.Error()
	}
	defer os.RemoveAll(dir)
	saved := satIsFinal
	satIsFinal = true
	res := Solve(sc.Render("ALL", nil, false), dir, "replay.model", 20*time.Second)
	satIsFinal = saved
	if res.Status != "sat" {
		return false, "replay: the model query came back " + res.Status
	}
	vals := map[string]string{}
	for _, m := range regexp.MustCompile(`\(\|?(obs![0-9]+)\|?\s+(\(-\s*[0-9]+\)|-?[0-9]+|true|false)\)`).FindAllStringSubmatch(res.Output, -1) {
		vals[m[1]] = m[2]
	}
	var args []string
	for _, b := range builders {
		a, ok := b(vals)
		if !ok {
			return false, "replay: the model does not fit the adapter (a slice longer than " + strconv.Itoa(replayMaxElems) + " elements or a value outside its type)"
		}
		args = append(args, a)
	}
	// the call
	call := ""
	name := fn.Name()
	if recv := fn.Signature.Recv(); recv != nil {
		call = fmt.Sprintf("(%s).%s(%s)", args[0], name, strings.Join(args[1:], ", "))
	} else {
		call = fmt.Sprintf("%s(%s)", name, strings.Join(args, ", "))
	}
	src := fmt.Sprintf(`package %s

import (
	"fmt"
	"os"
	"testing"
	"time"
)

// generated by csvqvc: replay of the solver's model for obligation
//   %s
func TestZZCsvqvcReplay(t *testing.T) {
	done := make(chan string, 1)
	go func() {
		defer func() {
			if r := recover(); r != nil {
				done <- fmt.Sprintf("REPLAY-PANIC: %%v", r)
				return
			}
			done <- "REPLAY-RETURNED"
		}()
		%s
	}()
	select {
	case m := <-done:
		fmt.Println(m)
	case <-time.After(3 * time.Second):
		fmt.Println("REPLAY-HANG: no return within 3 s")
		os.Exit(3)
	}
}
`, pkg.Name(), o.Name, call)
	rel := strings.TrimPrefix(pkg.Path(), "github.com/mithrandie/csvq")
	rel = strings.TrimPrefix(rel, "/")
	if rel == "" {
		rel = "."
	}
	testPath := filepath.Join(eng.repo, rel, "zz_csvqvc_replay_test.go")
	srcPath := filepath.Join(dir, "replay_test.go")
	os.WriteFile(srcPath, []byte(src), 0o644)
	ov, _ := json.Marshal(map[string]interface{}{"Replace": map[string]string{testPath: srcPath}})
	ovPath := filepath.Join(dir, "overlay.json")
	os.WriteFile(ovPath, ov, 0o644)
	ctx, cancel := context.WithTimeout(context.Background(), 120*time.Second)
	defer cancel()
	cmd := exec.CommandContext(ctx, "go", "test", "-v", "-overlay", ovPath, "-vet=off", "-count=1", "-timeout", "60s", "-run", "^TestZZCsvqvcReplay$", "./"+rel)
	cmd.Dir = eng.repo
	cmd.Env = append(os.Environ(), "GOFLAGS=-mod=mod", "GOPROXY=off", "GOSUMDB=off", "GOTOOLCHAIN=local")
	var out bytes.Buffer
	cmd.Stdout = &out
	cmd.Stderr = &out
	_ = cmd.Run()
	text := out.String()
	note := "replayed on the real code with `go test -overlay` (input from the solver's model):\n" + src + "\noutput:\n" + truncate(text, 3000)
	// the panic must be of the kind the obligation excludes (an unrelated panic on a partly built input proves nothing)
	wantMsg := map[string][]string{
		"bounds":     {"index out of range"},
		"slice":      {"slice bounds out of range"},
		"nil":        {"nil pointer dereference", "invalid memory address"},
		"div":        {"divide by zero"},
		"makeslice":  {"makeslice", "len out of range", "cap out of range"},
		"typeassert": {"interface conversion"},
		"mapwrite":   {"assignment to entry in nil map"},
	}[o.Kind]
	kindMatches := false
	for _, w := range wantMsg {
		if strings.Contains(text, w) {
			kindMatches = true
		}
	}
	switch {
	case expect == "panic" && strings.Contains(text, "REPLAY-PANIC") && kindMatches:
		return true, note
	case expect == "hang" && strings.Contains(text, "REPLAY-HANG"):
		return true, note
	}
	return false, "the model's input did not reproduce the failure on the real code (the model may rely on values the adapter cannot build, or on an assumed contract): " + note
}

func isSliceOfScalars(t types.Type) bool {
	sl, ok := t.Underlying().(*types.Slice)
	return ok && scalarKind(sl.Elem()) != ""
}

var _ = sort.Strings
var _ *ssa.Function
