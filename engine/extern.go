package main

// Models of standard-library functions (the trusted base: every entry is an assumption, listed in evidence).

import (
	"go/types"
	"strings"

	"golang.org/x/tools/go/ssa"
)

type externFn func(ex *Exec, st *State, fn *ssa.Function, args []Value) Value

func f64v(t *Term) Value  { return Value{T: types.Typ[types.Float64], C: []*Term{t}} }
func boolv(t *Term) Value { return Value{T: types.Typ[types.Bool], C: []*Term{t}} }

var fpPosInf = TS.intern(&Term{Op: "fpconst", Name: "(_ +oo 11 53)", Sort: F64Sort})
var fpNegInf = TS.intern(&Term{Op: "fpconst", Name: "(_ -oo 11 53)", Sort: F64Sort})
var fpNaN = TS.intern(&Term{Op: "fpconst", Name: "(_ NaN 11 53)", Sort: F64Sort})

var externModels = map[string]externFn{
	"math.IsNaN": func(ex *Exec, st *State, fn *ssa.Function, a []Value) Value {
		return boolv(mk("fp.isNaN", BoolSort, a[0].one()))
	},
	"math.IsInf": func(ex *Exec, st *State, fn *ssa.Function, a []Value) Value {
		x, s := a[0].one(), a[1].one()
		pos := And(mk("fp.isInfinite", BoolSort, x), mk("fp.isPositive", BoolSort, x))
		neg := And(mk("fp.isInfinite", BoolSort, x), mk("fp.isNegative", BoolSort, x))
		return boolv(Ite(Gt(s, IntLit(0)), pos, Ite(Lt(s, IntLit(0)), neg, mk("fp.isInfinite", BoolSort, x))))
	},
	"math.Abs": func(ex *Exec, st *State, fn *ssa.Function, a []Value) Value {
		return f64v(mk("fp.abs", F64Sort, a[0].one()))
	},
	"math.Floor": func(ex *Exec, st *State, fn *ssa.Function, a []Value) Value {
		return f64v(F64Round("floor", a[0].one()))
	},
	"math.Ceil": func(ex *Exec, st *State, fn *ssa.Function, a []Value) Value {
		return f64v(F64Round("ceil", a[0].one()))
	},
	"math.Trunc": func(ex *Exec, st *State, fn *ssa.Function, a []Value) Value {
		return f64v(F64Round("trunc", a[0].one()))
	},
	"math.NaN": func(ex *Exec, st *State, fn *ssa.Function, a []Value) Value { return f64v(fpNaN) },
	"math.Inf": func(ex *Exec, st *State, fn *ssa.Function, a []Value) Value {
		return f64v(Ite(Ge(a[0].one(), IntLit(0)), fpPosInf, fpNegInf))
	},
	"(*sync.Mutex).Lock":      noop,
	"(*sync.Mutex).Unlock":    noop,
	"(*sync.RWMutex).Lock":    noop,
	"(*sync.RWMutex).Unlock":  noop,
	"(*sync.RWMutex).RLock":   noop,
	"(*sync.RWMutex).RUnlock": noop,
	"(*sync.WaitGroup).Add":   noop,
	"(*sync.WaitGroup).Done":  noop,
	"(*sync.WaitGroup).Wait":  noop,
	"(*sync.Pool).Put":        noop,
	"(*sync.Pool).Get": func(ex *Exec, st *State, fn *ssa.Function, a []Value) Value {
		// an object nobody else references, of the type the pool hands out (dynamic type unconstrained)
		r := ex.allocRef(st)
		return Value{T: fn.Signature.Results().At(0).Type(), C: []*Term{r}}
	},
	"errors.New": nonNilRef,
	"fmt.Errorf": nonNilRef,
	"(time.Time).Equal": func(ex *Exec, st *State, fn *ssa.Function, a []Value) Value {
		return boolv(UF("time.equal", BoolSort, a[0].one(), a[1].one()))
	},
	"(time.Time).Before": func(ex *Exec, st *State, fn *ssa.Function, a []Value) Value {
		return boolv(UF("time.before", BoolSort, a[0].one(), a[1].one()))
	},
	"(time.Time).After": func(ex *Exec, st *State, fn *ssa.Function, a []Value) Value {
		return boolv(UF("time.before", BoolSort, a[1].one(), a[0].one()))
	},
}

func noop(ex *Exec, st *State, fn *ssa.Function, a []Value) Value { return Value{} }

func nonNilRef(ex *Exec, st *State, fn *ssa.Function, a []Value) Value {
	r := ex.allocRef(st)
	return Value{T: fn.Signature.Results().At(0).Type(), C: []*Term{r}}
}

func externModel(fn *ssa.Function) externFn {
	return externModels[fn.String()]
}

var purePkgs = map[string]bool{
	"strings": true, "strconv": true, "unicode": true, "unicode/utf8": true, "unicode/utf16": true, "math": true,
	"path/filepath": true, "path": true, "errors": true, "time": true, "bytes": true, "math/bits": true,
	"regexp": true, "sort": false, "fmt": false, "os": false,
	"golang.org/x/text/width": true, "github.com/mithrandie/go-text": true, "github.com/mithrandie/go-text/color": false,
	"crypto/md5": true, "crypto/sha1": true, "crypto/sha256": true, "crypto/sha512": true, "crypto/hmac": true,
	"encoding/hex": true, "encoding/base64": true, "html": true, "net/url": true,
}

var pureFuncs = map[string]bool{
	"fmt.Sprintf": true, "fmt.Sprint": true, "fmt.Sprintln": true, "fmt.Errorf": true,
	"sort.SearchInts": true, "os.Getenv": true, "os.IsNotExist": true, "os.IsExist": true,
	"(*strings.Builder).String": true, "(*bytes.Buffer).String": true, "(*bytes.Buffer).Len": true,
	"context.Background": true,
}

// functions in otherwise pure packages that write through their arguments or hold state
var impureFuncs = map[string]bool{
	"(*strings.Builder).WriteString": true, "(*strings.Builder).WriteByte": true, "(*strings.Builder).WriteRune": true,
	"(*strings.Builder).Write": true, "(*strings.Builder).Reset": true, "(*strings.Builder).Grow": true,
	"(*bytes.Buffer).WriteString": true, "(*bytes.Buffer).WriteByte": true, "(*bytes.Buffer).WriteRune": true,
	"(*bytes.Buffer).Write": true, "(*bytes.Buffer).Reset": true, "(*bytes.Buffer).Truncate": true,
	"(*bytes.Buffer).ReadFrom": true, "(*bytes.Buffer).Read": true, "(*bytes.Buffer).ReadByte": true,
	"time.Sleep": true, "time.Now": true, "time.Since": true,
	"(*time.Timer).Stop": true, "(*time.Timer).Reset": true,
}

func (eng *Engine) isPureExternal(fn *ssa.Function) bool {
	name := fn.String()
	if impureFuncs[name] {
		return false
	}
	if pureFuncs[name] {
		return true
	}
	if fn.Pkg == nil {
		// methods of instantiated / synthetic functions: look at the receiver's package
		if fn.Signature.Recv() != nil {
			if n, ok := derefType(fn.Signature.Recv().Type()).(*types.Named); ok && n.Obj().Pkg() != nil {
				return purePkgs[n.Obj().Pkg().Path()]
			}
		}
		return false
	}
	return purePkgs[fn.Pkg.Pkg.Path()]
}

func (eng *Engine) pureInvoke(c *ssa.CallCommon) bool {
	name := c.Method.FullName()
	switch {
	case name == "(error).Error":
		return true
	case strings.HasPrefix(name, "(context.Context)."):
		return true
	case strings.HasPrefix(name, "(fmt.Stringer)."):
		return true
	}
	return false
}
