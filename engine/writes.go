package main

// Static over-approximation of what a function or a loop may write: used to havoc at loop heads and
// at calls that are neither inlined nor under contract.

import (
	"go/types"
	"strings"

	"golang.org/x/tools/go/ssa"
)

type WriteSet struct {
	all    bool
	keys   map[string]bool
	locals map[*ssa.Alloc]bool
	alloc  bool
	why    string // reason for all
	except []string
	// otherAll: some reason for all is not a channel operation (a goroutine that owns storage keeps it across its
	// own channel operations, not across calls into unknown code)
	otherAll bool
}

func newWriteSet() *WriteSet {
	return &WriteSet{keys: map[string]bool{}, locals: map[*ssa.Alloc]bool{}}
}

func (w *WriteSet) addKeys(ks []string) {
	for _, k := range ks {
		w.keys[k] = true
	}
}

func (w *WriteSet) union(o *WriteSet) {
	if o.all {
		if o.otherAll {
			w.otherAll = true
		}
		if !w.all {
			w.all = true
			w.why = o.why
			w.except = append([]string{}, o.except...)
		} else {
			// both havoc everything: only prefixes spared by both stay spared
			var keep []string
			for _, p := range w.except {
				for _, q := range o.except {
					if p == q {
						keep = append(keep, p)
					}
				}
			}
			w.except = keep
		}
	}
	for k := range o.keys {
		w.keys[k] = true
	}
	if o.alloc {
		w.alloc = true
	}
	w.dropTouchedExceptions()
}

// dropTouchedExceptions: a spared prefix that some explicitly written key falls under is no longer spared.
func (w *WriteSet) dropTouchedExceptions() {
	// havoc() gives every explicitly written key a fresh value after installing the spared prefixes, so a written
	// key under a spared prefix is havocked on its own and its siblings stay spared: nothing to drop
	if true || !w.all || len(w.except) == 0 {
		return
	}
	var keep []string
	for _, p := range w.except {
		touched := false
		for k := range w.keys {
			if strings.HasPrefix(k, p) {
				touched = true
				break
			}
		}
		if !touched {
			keep = append(keep, p)
		}
	}
	w.except = keep
}

func (w *WriteSet) setAll(why string) {
	if !strings.HasPrefix(why, "channel ") {
		w.otherAll = true
	}
	if !w.all {
		w.all = true
		w.why = why
	}
}

type writeAnalyzer struct {
	eng   *Engine
	memo  map[*ssa.Function]*WriteSet
	stack map[*ssa.Function]bool
}

// rootLocal returns the non-heap Alloc at the root of an address chain, if any.
func rootLocal(addr ssa.Value) *ssa.Alloc {
	for {
		switch a := addr.(type) {
		case *ssa.Alloc:
			if !a.Heap {
				if _, isArr := a.Type().(*types.Pointer).Elem().Underlying().(*types.Array); isArr {
					return nil
				}
				return a
			}
			return nil
		case *ssa.FieldAddr:
			addr = a.X
		default:
			return nil
		}
	}
}

func derefType(t types.Type) types.Type {
	if p, ok := t.Underlying().(*types.Pointer); ok {
		return p.Elem()
	}
	return t
}

func addrKeys(addr ssa.Value) (local *ssa.Alloc, keys []string) {
	if l := rootLocal(addr); l != nil {
		return l, nil
	}
	switch a := addr.(type) {
	case *ssa.Alloc:
		return nil, refKeys(derefType(a.Type()))
	case *ssa.FieldAddr:
		switch a.X.(type) {
		case *ssa.FieldAddr, *ssa.IndexAddr:
			return addrKeys(a.X)
		}
		st := derefType(a.X.Type())
		sst := st.Underlying().(*types.Struct)
		all := refKeys(st)
		off := fieldOffset(sst, a.Field)
		n := len(layout(sst.Field(a.Field).Type()))
		return nil, all[off : off+n]
	case *ssa.IndexAddr:
		switch xt := a.X.Type().Underlying().(type) {
		case *types.Slice:
			return nil, elemKeys(xt.Elem())
		case *types.Pointer:
			arr := xt.Elem().Underlying().(*types.Array)
			return nil, elemKeys(arr.Elem())
		}
	case *ssa.Global:
		return nil, globalKeys(a)
	}
	return nil, refKeys(derefType(addr.Type()))
}

func (wa *writeAnalyzer) ofFunction(fn *ssa.Function) *WriteSet {
	if w, ok := wa.memo[fn]; ok {
		return w
	}
	w := newWriteSet()
	if wa.stack[fn] {
		w.setAll("recursion through " + fn.String())
		return w
	}
	if c := wa.eng.contractFor(fn); c != nil && (c.Modifies != nil || len(c.GhostSets) > 0) && (c.HasMod || c.Trusted || fn.Blocks == nil) {
		ms := wa.eng.modifiesKeys(c, fn)
		wa.memo[fn] = ms
		return ms
	}
	if fn.Blocks == nil {
		if wa.eng.isPureExternal(fn) {
			wa.memo[fn] = w
			return w
		}
		w.setAll("external " + fn.String())
		wa.memo[fn] = w
		return w
	}
	if !wa.eng.isRepoFunc(fn) {
		if wa.eng.isPureExternal(fn) {
			wa.memo[fn] = w
			return w
		}
		if m := externModel(fn); m != nil {
			wa.memo[fn] = w
			return w
		}
		w.setAll("dependency " + fn.String())
		wa.memo[fn] = w
		return w
	}
	wa.stack[fn] = true
	for _, b := range fn.Blocks {
		wa.instrs(b.Instrs, w, fn)
	}
	delete(wa.stack, fn)
	// locals of the callee are not visible to callers
	w.locals = map[*ssa.Alloc]bool{}
	wa.memo[fn] = w
	return w
}

func (wa *writeAnalyzer) ofBlocks(blocks []*ssa.BasicBlock, fn *ssa.Function) *WriteSet {
	w := newWriteSet()
	for _, b := range blocks {
		wa.instrs(b.Instrs, w, fn)
	}
	return w
}

func (wa *writeAnalyzer) instrs(ins []ssa.Instruction, w *WriteSet, fn *ssa.Function) {
	for _, in := range ins {
		switch i := in.(type) {
		case *ssa.Store:
			l, ks := addrKeys(i.Addr)
			if l != nil {
				w.locals[l] = true
			} else {
				w.addKeys(ks)
			}
		case *ssa.Alloc:
			if i.Heap {
				w.alloc = true
				w.addKeys(refKeys(derefType(i.Type())))
			} else {
				w.locals[i] = true
				if arr, ok := derefType(i.Type()).Underlying().(*types.Array); ok {
					w.alloc = true
					w.addKeys(elemKeys(arr.Elem()))
				}
			}
		case *ssa.MakeSlice:
			w.alloc = true
			w.addKeys(elemKeys(i.Type().Underlying().(*types.Slice).Elem()))
		case *ssa.MakeMap:
			w.alloc = true
			d, l, vs := mapKeys(i.Type().Underlying().(*types.Map))
			w.addKeys(append([]string{d, l}, vs...))
		case *ssa.MakeInterface:
			if _, isPtr := i.X.Type().Underlying().(*types.Pointer); !isPtr {
				w.alloc = true
				w.addKeys(refKeys(i.X.Type()))
			}
		case *ssa.MakeClosure:
			w.alloc = true
		case *ssa.MapUpdate:
			d, l, vs := mapKeys(i.Map.Type().Underlying().(*types.Map))
			w.addKeys(append([]string{d, l}, vs...))
		case *ssa.Go:
			w.setAll("go statement in " + fn.String())
		case *ssa.Send:
			w.setAll("channel send in " + fn.String())
		case *ssa.Select:
			w.setAll("select in " + fn.String())
		case *ssa.Defer:
			wa.call(&i.Call, w, fn)
		case *ssa.Call:
			wa.call(&i.Call, w, fn)
		case *ssa.Slice:
			// slicing a string/slice allocates nothing we track
		case *ssa.Next, *ssa.Range:
		case *ssa.UnOp:
			if i.Op.String() == "<-" {
				w.setAll("channel receive in " + fn.String())
			}
		}
	}
}

func (wa *writeAnalyzer) call(c *ssa.CallCommon, w *WriteSet, fn *ssa.Function) {
	if fc := wa.eng.contractFor(fn); fc != nil && len(fc.PointSets) > 0 {
		name := ""
		if c.IsInvoke() {
			name = shortName(c.Method.FullName())
		} else if f := c.StaticCallee(); f != nil {
			name = shortName(f.String())
		}
		for _, ps := range fc.PointSets {
			if ps.Callee == name {
				if g, ok := wa.eng.contracts.Ghosts[ps.Set.Var]; ok {
					w.keys[regKey("GH:"+ps.Set.Var, wa.eng.ghostSort(g))] = true
				}
			}
		}
	}
	if c.IsInvoke() {
		impls := wa.eng.implementors(c.Value.Type(), c.Method)
		if ic := wa.eng.contractForInvoke(c); ic != nil && ic.Modifies != nil {
			w.union(wa.eng.modifiesKeysIface(ic))
			return
		}
		if wa.eng.pureInvoke(c) {
			return
		}
		if impls == nil {
			w.setAll("invoke of " + c.Method.FullName())
			return
		}
		for _, f := range impls {
			w.union(wa.ofFunction(f))
		}
		return
	}
	switch v := c.Value.(type) {
	case *ssa.Builtin:
		switch v.Name() {
		case "append":
			w.alloc = true
			if sl, ok := c.Args[0].Type().Underlying().(*types.Slice); ok {
				w.addKeys(elemKeys(sl.Elem()))
			}
		case "copy":
			if sl, ok := c.Args[0].Type().Underlying().(*types.Slice); ok {
				w.addKeys(elemKeys(sl.Elem()))
			}
		case "delete":
			d, l, vs := mapKeys(c.Args[0].Type().Underlying().(*types.Map))
			w.addKeys(append([]string{d, l}, vs...))
		case "close", "recover":
			w.setAll("builtin " + v.Name())
		case "clear":
			w.setAll("builtin clear")
		}
	case *ssa.Function:
		w.union(wa.ofFunction(v))
	case *ssa.MakeClosure:
		w.union(wa.ofFunction(v.Fn.(*ssa.Function)))
	default:
		// call through a function value
		if mc := closureOrigin(c.Value); mc != nil {
			w.union(wa.ofFunction(mc.Fn.(*ssa.Function)))
			return
		}
		if f, ok := staticFnOrigin[c.Value]; ok {
			w.union(wa.ofFunction(f))
			return
		}
		if fc := wa.eng.contractFor(fn); fc != nil && fc.Callbacks != nil {
			if mods := fc.Callbacks[fnValueName(c.Value)]; mods != nil {
				w.union(wa.eng.modifiesKeys(&FuncContract{Key: fc.Key + ":callback", Pkg: fc.Pkg, Modifies: mods, HasMod: true}, fn))
				return
			}
		}
		w.setAll("call through function value in " + fn.String())
	}
}

// staticFnOrigin: function literals without free variables stored in a local and called through it
var staticFnOrigin = map[ssa.Value]*ssa.Function{}

// closureOrigin finds the MakeClosure feeding a call through a local variable, when unique.
func closureOrigin(v ssa.Value) *ssa.MakeClosure {
	switch x := v.(type) {
	case *ssa.MakeClosure:
		return x
	case *ssa.UnOp:
		if x.Op.String() == "*" {
			if a, ok := x.X.(*ssa.Alloc); ok {
				var found *ssa.MakeClosure
				n := 0
				for _, r := range *a.Referrers() {
					if st, ok := r.(*ssa.Store); ok && st.Addr == a {
						n++
						if mc, ok := st.Val.(*ssa.MakeClosure); ok {
							found = mc
						}
						if f, ok := st.Val.(*ssa.Function); ok {
							staticFnOrigin[v] = f
						}
					}
				}
				if n == 1 {
					return found
				}
				delete(staticFnOrigin, v)
			}
		}
	}
	return nil
}

func shortName(s string) string {
	s = strings.ReplaceAll(s, "github.com/mithrandie/csvq/lib/", "")
	s = strings.ReplaceAll(s, "github.com/mithrandie/", "")
	return s
}
