package main

import (
	"encoding/json"
	"flag"
	"fmt"
	"os"
	"os/exec"
	"path/filepath"
	"runtime/pprof"
	"sort"
	"strings"
	"sync"
	"time"
)

type LockProp struct {
	Discharged []string `json:"discharged"`
	Unclaimed  []string `json:"unclaimed"`
}

type LockFile struct {
	Properties map[string]*LockProp `json:"properties"`
}

type Finding struct {
	Kind       string // known | fixed
	Property   string
	Obligation string
	Text       string
	What       string
}

func readFindings(path string) []Finding {
	data, err := os.ReadFile(path)
	if err != nil {
		return nil
	}
	var out []Finding
	for _, l := range strings.Split(string(data), "\n") {
		l = strings.TrimSpace(l)
		if l == "" || strings.HasPrefix(l, "#") {
			continue
		}
		var f Finding
		switch {
		case strings.HasPrefix(l, "known:"):
			f.Kind = "known"
			l = strings.TrimSpace(strings.TrimPrefix(l, "known:"))
		case strings.HasPrefix(l, "fixed:"):
			f.Kind = "fixed"
			l = strings.TrimSpace(strings.TrimPrefix(l, "fixed:"))
		default:
			continue
		}
		for _, w := range strings.Fields(l) {
			if strings.HasPrefix(w, "property=") {
				f.Property = strings.TrimPrefix(w, "property=")
			} else if strings.HasPrefix(w, "obligation=") {
				f.Obligation = strings.TrimPrefix(w, "obligation=")
			}
		}
		f.Text = l
		// what fails: the line without its property= / obligation= words
		var rest []string
		for _, w := range strings.Fields(l) {
			if !strings.HasPrefix(w, "property=") && !strings.HasPrefix(w, "obligation=") {
				rest = append(rest, w)
			}
		}
		f.What = "obligation=" + f.Obligation + " " + strings.Join(rest, " ")
		out = append(out, f)
	}
	return out
}

type oblResult struct {
	o   *Obligation
	res SolveResult
	ax  []string
}

// solveBatches: first pass. The obligations of one function share their assumptions: they are sent to one
// incremental solver process (push/pop per obligation). What that pass discharges is done; the rest goes through the
// per-obligation race of solveAll, which also produces models.
func solveBatches(eng *Engine, obls []*Obligation, dir string, par int) map[*Obligation]SolveResult {
	done := map[*Obligation]SolveResult{}
	groups := map[*Exec][]*Obligation{}
	var order []*Exec
	for _, o := range obls {
		if o.exec == nil || o.Kind == "lemma" {
			continue
		}
		if _, ok := groups[o.exec]; !ok {
			order = append(order, o.exec)
		}
		groups[o.exec] = append(groups[o.exec], o)
	}
	type job struct {
		obls   []*Obligation
		script string
		file   string
	}
	var jobs []job
	for gi, ex := range order {
		g := groups[ex]
		if len(g) < 2 {
			continue
		}
		var core []*Term
		core = append(core, ex.assumes[:g[len(g)-1].NAssume]...)
		for _, o := range g {
			core = append(core, o.PC, o.Goal)
		}
		axs, _ := eng.relevantAxioms(core, "", nil)
		sc := &Script{Asserts: axs}
		prev := 0
		for _, o := range g {
			n := o.NAssume
			if n < prev {
				n = prev
			}
			sc.Steps = append(sc.Steps, BatchStep{Perm: ex.assumes[prev:n], Temp: []*Term{o.PC, Not(o.Goal)}})
			prev = n
		}
		text := "(set-option :timeout 2500)\n" + sc.Render("ALL", nil, false)
		jobs = append(jobs, job{g, text, filepath.Join(dir, fmt.Sprintf("batch%d.smt2", gi))})
	}
	var mu sync.Mutex
	var wg sync.WaitGroup
	sem := make(chan struct{}, par)
	for _, j := range jobs {
		j := j
		wg.Add(1)
		sem <- struct{}{}
		go func() {
			defer wg.Done()
			defer func() { <-sem }()
			if err := os.WriteFile(j.file, []byte(j.script), 0o644); err != nil {
				return
			}
			start := time.Now()
			outp, _ := execCmd("z3-new", fmt.Sprintf("-T:%d", 20+3*len(j.obls)), j.file)
			secs := time.Since(start).Seconds()
			// parse: "step i" followed by the verdict
			lines := strings.Split(outp, "\n")
			cur := -1
			mu.Lock()
			defer mu.Unlock()
			for _, l := range lines {
				l = strings.TrimSpace(l)
				if strings.HasPrefix(l, "step ") {
					fmt.Sscanf(l, "step %d", &cur)
					continue
				}
				if cur >= 0 && cur < len(j.obls) && l == "unsat" {
					done[j.obls[cur]] = SolveResult{Status: "unsat", Solver: "z3-new(batch)", Seconds: secs / float64(len(j.obls))}
					cur = -1
				} else if l == "sat" || l == "unknown" || strings.HasPrefix(l, "(error") {
					cur = -1
				}
			}
		}()
	}
	wg.Wait()
	return done
}

func solveAll(eng *Engine, obls []*Obligation, timeout time.Duration, dir string, par int) []oblResult {
	out := make([]oblResult, len(obls))
	batched := map[*Obligation]SolveResult{}
	if len(obls) > 8 && os.Getenv("CSVQVC_BATCH") != "" {
		batched = solveBatches(eng, obls, dir, par)
	}
	// scripts are rendered sequentially (term store is not concurrent), solving runs in parallel
	scripts := make([]string, len(obls))
	relaxed := make([]string, len(obls))
	for i, o := range obls {
		out[i].o = o
		if r, ok := batched[o]; ok {
			out[i].res = r
			_, out[i].ax = eng.relevantAxiomNames(o)
			continue
		}
		s, ax := eng.script(o, true)
		scripts[i] = s
		out[i].ax = ax
		if rs, _, dropped := eng.scriptR(o, true, true); dropped {
			relaxed[i] = rs
		}
	}
	var wg sync.WaitGroup
	sem := make(chan struct{}, par)
	for i := range obls {
		if _, ok := batched[obls[i]]; ok {
			continue
		}
		wg.Add(1)
		sem <- struct{}{}
		go func(i int) {
			defer wg.Done()
			defer func() { <-sem }()
			if len(scripts[i]) > 4<<20 {
				out[i].res = SolveResult{Status: "toolarge", Output: fmt.Sprintf("script of %d bytes exceeds the 4 MB cap", len(scripts[i]))}
				return
			}
			var first SolveResult
			if relaxed[i] != "" {
				// stage 1: without quantified hypotheses (definite answers, usable models)
				first = Solve(relaxed[i], dir, obls[i].Name+".relaxed", timeout)
				if first.Status == "unsat" {
					first.Solver += "(qf)"
					out[i].res = first
					return
				}
			}
			out[i].res = Solve(scripts[i], dir, obls[i].Name, timeout)
			out[i].res.Seconds += first.Seconds
			if out[i].res.Status != "unsat" && first.Status == "sat" {
				out[i].res.Output = "model of the quantifier-free relaxation (hypotheses with quantifiers dropped):\n" + first.Output + "\nfull query: " + out[i].res.Status + "\n" + out[i].res.Output
				out[i].res.RelaxedModel = first.Output
			}
			obls[i].Script = filepath.Join(dir, sanitizeFile(obls[i].Name)+".smt2")
		}(i)
	}
	wg.Wait()
	return out
}

func main() {
	if pf := os.Getenv("CSVQVC_PROF"); pf != "" {
		f, _ := os.Create(pf)
		pprof.StartCPUProfile(f)
		defer pprof.StopCPUProfile()
	}
	code := realMain()
	pprof.StopCPUProfile()
	os.Exit(code)
}

func realMain() int {
	if len(os.Args) < 2 {
		fmt.Fprintln(os.Stderr, "usage: csvqvc check <property> [--tier quick|thorough] | func <key>... | lock | list")
		return 2
	}
	cmd := os.Args[1]
	fs := flag.NewFlagSet(cmd, flag.ExitOnError)
	tier := fs.String("tier", "", "quick or thorough")
	repo := fs.String("repo", "/repo", "repository")
	verif := fs.String("verif", "/verif", "verification directory")
	verbose := fs.Bool("v", false, "verbose")
	dump := fs.Bool("dump", false, "keep SMT files and print their location")
	tmo := fs.Int("timeout", 0, "per-obligation timeout in seconds")
	noev := fs.Bool("noevidence", false, "do not write evidence / replay files (selftests against scratch copies)")
	var pos []string
	args := os.Args[2:]
	for len(args) > 0 {
		if strings.HasPrefix(args[0], "-") {
			break
		}
		pos = append(pos, args[0])
		args = args[1:]
	}
	fs.Parse(args)
	pos = append(pos, fs.Args()...)
	if *tier == "" {
		*tier = os.Getenv("VERIF_TIER")
		if *tier == "" {
			*tier = "quick"
		}
	}
	switch cmd {
	case "check":
		if len(pos) != 1 {
			fmt.Fprintln(os.Stderr, "check needs exactly one property id")
			return 2
		}
		noEvidence = *noev
		return runCheck(pos[0], *tier, *repo, *verif, *verbose, *tmo)
	case "func":
		return runFuncs(pos, *repo, *verif, *verbose, *dump, *tmo)
	case "core":
		return runCore(pos, *repo, *verif)
	case "callers":
		// lists the repository functions that call the given function (short name) and have no contract yet
		eng, err := NewEngine(*repo, *verif)
		if err != nil {
			fmt.Fprintln(os.Stderr, err)
			return 2
		}
		for _, k := range eng.callersOf(pos[0]) {
			fmt.Println(k)
		}
	case "lock":
		return runLock(pos, *repo, *verif, *tmo)
	case "list":
		eng, err := NewEngine(*repo, *verif)
		if err != nil {
			fmt.Fprintln(os.Stderr, err)
			return 2
		}
		for _, k := range eng.contracts.Order {
			c := eng.contracts.Funcs[k]
			fmt.Printf("%-60s %v\n", k, c.Props)
		}
		for _, n := range eng.contracts.AxOrd {
			a := eng.contracts.Axioms[n]
			kind := "axiom"
			if a.Lemma {
				kind = "lemma"
			}
			fmt.Printf("%s %-54s %v\n", kind, n, a.Props)
		}
	default:
		fmt.Fprintln(os.Stderr, "unknown command", cmd)
		return 2
	}
	return 0
}

var noEvidence bool

func scratchDir() string {
	d, err := os.MkdirTemp("", "csvqvc-")
	if err != nil {
		panic(err)
	}
	return d
}

func runFuncs(keys []string, repo, verif string, verbose, dump bool, tmo int) int {
	eng, err := NewEngine(repo, verif)
	if err != nil {
		fmt.Fprintln(os.Stderr, err)
		return 2
	}
	dir := scratchDir()
	if !dump {
		defer os.RemoveAll(dir)
	} else {
		fmt.Println("SMT files in", dir)
	}
	timeout := 10 * time.Second
	if tmo > 0 {
		timeout = time.Duration(tmo) * time.Second
	}
	bad := 0
	for _, k := range keys {
		var obls []*Obligation
		if strings.HasPrefix(k, "lemma:") {
			o, err := eng.lemmaObligation(strings.TrimPrefix(k, "lemma:"))
			if err != nil {
				fmt.Println("ERROR", err)
				bad++
				continue
			}
			obls = []*Obligation{o}
		} else {
			if _, ok := eng.contracts.Funcs[k]; !ok {
				// allow suffix match
				for _, full := range eng.contracts.Order {
					if strings.HasSuffix(full, k) {
						k = full
					}
				}
			}
			rep := eng.verifyFunc(k)
			if rep.Err != "" {
				fmt.Println("ERROR", rep.Err)
				bad++
				continue
			}
			for _, w := range rep.Warnings {
				fmt.Println("  warning:", w)
			}
			if verbose {
				fmt.Println("  inlined:", rep.Inlined)
				fmt.Println("  abstracted:", rep.Abstracted)
				fmt.Println("  contracts used:", rep.UsedContr)
				if len(rep.AssumedTerm) > 0 {
					fmt.Println("  assumed to terminate:", rep.AssumedTerm)
				}
			}
			obls = rep.Obligations
			if rep.exec != nil {
				r := Solve(eng.reachScript(rep), dir, "reach."+k, 5*time.Second)
				fmt.Printf("  reach(%s): %s\n", k, r.Status)
			}
		}
		res := solveAll(eng, obls, timeout, dir, 6)
		for _, r := range res {
			mark := "ok  "
			if r.res.Status != "unsat" {
				mark = "FAIL"
				bad++
			}
			fmt.Printf("%s %-8s %-7s %5.2fs %s   [%s] %s\n", mark, r.res.Status, r.res.Solver, r.res.Seconds, r.o.Name, r.o.Pos, truncate(r.o.Text, 80))
			if r.res.Status != "unsat" && verbose {
				fmt.Println(indent(truncate(r.res.Output, 3000)))
			}
		}
	}
	for _, be := range eng.bindingErrors {
		fmt.Println("BINDING-ERROR", be)
		bad++
	}
	if bad > 0 {
		return 1
	}
	return 0
}

func indent(s string) string {
	return "      " + strings.ReplaceAll(s, "\n", "\n      ")
}

func propFuncs(eng *Engine, prop string) (funcs []string, lemmas []string) {
	for _, k := range eng.contracts.Order {
		for _, p := range eng.contracts.Funcs[k].Props {
			if p == prop {
				funcs = append(funcs, k)
			}
		}
	}
	for _, n := range eng.contracts.AxOrd {
		a := eng.contracts.Axioms[n]
		if !a.Lemma {
			continue
		}
		for _, p := range a.Props {
			if p == prop {
				lemmas = append(lemmas, n)
			}
		}
	}
	return
}

type propRun struct {
	prop      string
	reports   []*FuncReport
	results   []oblResult
	vacuous   []string
	canaryBad []string
	errors    []string
	solverSec float64
	skipped   []string
}

func parallelism() int {
	n := 16
	if v := os.Getenv("CSVQVC_PAR"); v != "" {
		fmt.Sscan(v, &n)
	}
	return n
}

var skipObligations map[string]bool

func runProperty(eng *Engine, prop string, timeout time.Duration, dir string) *propRun {
	pr := &propRun{prop: prop}
	funcs, lemmas := propFuncs(eng, prop)
	var obls []*Obligation
	for _, k := range funcs {
		rep := eng.verifyFunc(k)
		pr.reports = append(pr.reports, rep)
		if rep.Err != "" {
			pr.errors = append(pr.errors, rep.Err)
			continue
		}
		obls = append(obls, rep.Obligations...)
	}
	for _, l := range lemmas {
		o, err := eng.lemmaObligation(l)
		if err != nil {
			pr.errors = append(pr.errors, fmt.Sprintf("lemma %s: %v", l, err))
			continue
		}
		obls = append(obls, o)
	}
	if len(skipObligations) > 0 {
		var keep []*Obligation
		for _, o := range obls {
			if skipObligations[o.Name] {
				pr.skipped = append(pr.skipped, o.Name)
				continue
			}
			keep = append(keep, o)
		}
		obls = keep
	}
	pr.results = solveAll(eng, obls, timeout, dir, parallelism())
	// lemmas used as hypotheses are obligations of this run too (whatever property they are tagged with)
	have := map[string]bool{}
	for _, l := range lemmas {
		have[l] = true
	}
	for round := 0; round < 5; round++ {
		var more []*Obligation
		for _, r := range pr.results {
			for _, a := range append(append([]string{}, r.ax...), r.o.lemmaUses...) {
				if ax := eng.contracts.Axioms[a]; ax != nil && ax.Lemma && !have[a] {
					have[a] = true
					o, err := eng.lemmaObligation(a)
					if err != nil {
						pr.errors = append(pr.errors, fmt.Sprintf("lemma %s: %v", a, err))
						continue
					}
					more = append(more, o)
				}
			}
		}
		if len(more) == 0 {
			break
		}
		pr.results = append(pr.results, solveAll(eng, more, timeout, dir, 6)...)
	}
	for _, r := range pr.results {
		pr.solverSec += r.res.Seconds
	}
	// global invariants relied upon: the locations they read must be written by package initialisation only
	usedInv := map[string]bool{}
	for _, rep := range pr.reports {
		if rep.exec != nil {
			for n := range rep.exec.usedInv {
				usedInv[n] = true
			}
		}
	}
	for _, inv := range eng.contracts.Invs {
		if !usedInv[inv.Name] {
			continue
		}
		o := &Obligation{Name: "invariant#" + inv.Name + ":stable", Func: "invariant " + inv.Name, Kind: "invariant", Text: "locations read by the invariant are written only by package initialisation: " + inv.Text, Pos: fmt.Sprintf("%s:%d", inv.File, inv.Line), PC: True, Goal: True}
		res := SolveResult{Status: "unsat", Solver: "static-scan"}
		if bad := eng.invariantUnstable(inv); len(bad) > 0 {
			res = SolveResult{Status: "unstable", Output: strings.Join(bad, "\n")}
		}
		pr.results = append(pr.results, oblResult{o: o, res: res})
	}
	// vacuity: the normal return of every verified function must be reachable under its assumptions
	{
		type rj struct {
			key    string
			script string
		}
		var jobs []rj
		for _, rep := range pr.reports {
			if rep.exec == nil || rep.Err != "" {
				continue
			}
			jobs = append(jobs, rj{rep.Key, eng.reachScript(rep)})
		}
		var mu sync.Mutex
		var wg sync.WaitGroup
		sem := make(chan struct{}, parallelism())
		satIsFinal = true
		defer func() { satIsFinal = false }()
		for _, j := range jobs {
			j := j
			wg.Add(1)
			sem <- struct{}{}
			go func() {
				defer wg.Done()
				defer func() { <-sem }()
				r := Solve(j.script, dir, "reach."+j.key, 6*time.Second)
				if r.Status == "unsat" {
					mu.Lock()
					pr.vacuous = append(pr.vacuous, j.key)
					mu.Unlock()
				}
			}()
		}
		wg.Wait()
	}
	return pr
}

func runCanary(eng *Engine, dir string) []string {
	var bad []string
	satIsFinal = true
	defer func() { satIsFinal = false }()
	funcs, lemmas := propFuncs(eng, "CANARY")
	for _, l := range lemmas {
		o, err := eng.lemmaObligation(l)
		if err != nil {
			bad = append(bad, "canary lemma "+l+": "+err.Error())
			continue
		}
		res := solveAll(eng, []*Obligation{o}, 10*time.Second, dir, 1)
		if res[0].res.Status != "sat" {
			bad = append(bad, "canary lemma "+l+" did not come back sat ("+res[0].res.Status+")")
		}
	}
	if len(funcs) == 0 {
		return []string{"no canary contract found"}
	}
	for _, k := range funcs {
		rep := eng.verifyFunc(k)
		if rep.Err != "" {
			bad = append(bad, rep.Err)
			continue
		}
		res := solveAll(eng, rep.Obligations, 10*time.Second, dir, 6)
		fired := false
		for _, r := range res {
			if r.res.Status == "sat" {
				fired = true
			}
		}
		if !fired {
			bad = append(bad, "canary "+k+" did not come back sat")
		}
	}
	// the canary's binding errors are not the property's
	return bad
}

func runCheck(prop, tier, repo, verif string, verbose bool, tmo int) int {
	start := time.Now()
	eng, err := NewEngine(repo, verif)
	if err != nil {
		fmt.Fprintln(os.Stderr, "ENGINE-ERROR", err)
		return 2
	}
	for _, n := range eng.notes {
		fmt.Println(n)
	}
	dir := scratchDir()
	if os.Getenv("CSVQVC_KEEP") == "" {
		defer os.RemoveAll(dir)
	} else {
		fmt.Println("scratch:", dir)
	}
	// claimed obligations discharged within 5 s when the lock was taken; the check allows them four times that
	timeout := 20 * time.Second
	if tier == "thorough" {
		timeout = 60 * time.Second
	}
	if tmo > 0 {
		timeout = time.Duration(tmo) * time.Second
	}
	canaryBad := runCanary(eng, dir)
	eng.bindingErrors = nil
	var lock LockFile
	if data, err := os.ReadFile(filepath.Join(verif, "contracts.lock.json")); err == nil {
		json.Unmarshal(data, &lock)
	}
	lp := &LockProp{}
	if lock.Properties != nil && lock.Properties[prop] != nil {
		lp = lock.Properties[prop]
	}
	if tier != "thorough" {
		// obligations that never discharged on the unchanged tree are not claimed and can raise no alarm: the quick
		// tier does not spend solver time on them (the thorough tier attempts them all)
		skipObligations = map[string]bool{}
		for _, u := range lp.Unclaimed {
			skipObligations[u] = true
		}
	}
	pr := runProperty(eng, prop, timeout, dir)
	pr.canaryBad = canaryBad
	unclaimed := map[string]bool{}
	for _, u := range lp.Unclaimed {
		unclaimed[u] = true
	}
	// a claimed obligation that came back without an answer (timeout / unknown) from the parallel pass is asked again
	// with little else running before it is reported: wall-clock times of a 16-way parallel run are noisy, and an
	// alarm must not depend on the load of the machine. A refutation (sat) is never retried.
	{
		var again []*Obligation
		idx := map[string]int{}
		for i, r := range pr.results {
			if r.res.Status != "unsat" && r.res.Status != "sat" && !unclaimed[r.o.Name] {
				again = append(again, r.o)
				idx[r.o.Name] = i
			}
		}
		if len(again) > 0 && len(again) <= 60 {
			for _, r2 := range solveAll(eng, again, timeout, dir, 2) {
				if r2.res.Status == "unsat" || r2.res.Status == "sat" {
					pr.results[idx[r2.o.Name]] = r2
				}
			}
		}
	}
	findings := readFindings(filepath.Join(verif, "known_findings.txt"))
	known := map[string]Finding{}
	for _, f := range findings {
		if f.Kind == "known" && f.Property == prop {
			known[f.Obligation] = f
		}
	}
	claimedSet := map[string]bool{}
	for _, d := range lp.Discharged {
		claimedSet[d] = true
	}
	genNow := map[string]bool{}
	for _, r := range pr.results {
		genNow[r.o.Name] = true
	}
	for _, s := range pr.skipped {
		genNow[s] = true
	}
	lostUnclaimed := map[string]int{}
	for _, u := range lp.Unclaimed {
		if !genNow[u] {
			lostUnclaimed[oblPrefix(u)]++
		}
	}
	exit := 0
	violations := 0
	var discharged, failedUnclaimed, knownHit []string
	var samples []map[string]interface{}
	byBackend := map[string]int{}
	generated := map[string]bool{}
	replayDir := filepath.Join(verif, "replays", prop)
	for _, r := range pr.results {
		generated[r.o.Name] = true
		if r.res.Status == "unsat" {
			discharged = append(discharged, r.o.Name)
			byBackend[r.res.Solver]++
			if len(samples) < 6 {
				samples = append(samples, map[string]interface{}{"obligation": r.o.Name, "kind": r.o.Kind, "clause": truncate(r.o.Text, 160), "at": r.o.Pos, "backend": r.res.Solver, "seconds": r.res.Seconds})
			}
			continue
		}
		if f, ok := known[r.o.Name]; ok {
			fmt.Printf("KNOWN-FINDING: property=%s %s\n", prop, f.What)
			knownHit = append(knownHit, r.o.Name)
			continue
		}
		if unclaimed[r.o.Name] {
			failedUnclaimed = append(failedUnclaimed, r.o.Name)
			continue
		}
		// an unclaimed statement-level obligation whose statement was edited comes back under a new name: it is the
		// same unproved obligation, not a new alarm (as many new names per function and kind as unclaimed ones vanished)
		if !claimedSet[r.o.Name] {
			if p := oblPrefix(r.o.Name); lostUnclaimed[p] > 0 {
				lostUnclaimed[p]--
				failedUnclaimed = append(failedUnclaimed, r.o.Name)
				continue
			}
		}
		// violation
		violations++
		exit = 1
		if noEvidence {
			replayDir = filepath.Join(dir, "replays")
		}
		os.MkdirAll(replayDir, 0o755)
		rp := filepath.Join(replayDir, sanitizeFile(r.o.Name)+".json")
		script, _ := eng.script(r.o, true)
		confirmed, replayNote := tryReplay(eng, r, verif)
		rec := map[string]interface{}{
			"property": prop, "obligation": r.o.Name, "function": r.o.Func, "kind": r.o.Kind, "clause": r.o.Text, "at": r.o.Pos,
			"solver_status": r.res.Status, "solver": r.res.Solver, "solver_output": truncate(r.res.Output, 20000), "all_solvers": r.res.All,
			"smt2": script, "replay": replayNote, "confirmed_on_real_code": confirmed,
		}
		data, _ := json.MarshalIndent(rec, "", " ")
		os.WriteFile(rp, data, 0o644)
		suffix := " no-failing-input-found"
		if confirmed {
			suffix = ""
		}
		fmt.Printf("VIOLATION property=%s replay=%s%s\n", prop, rp, suffix)
		fmt.Printf("  failed obligation %s (%s) at %s: %s\n", r.o.Name, r.res.Status, r.o.Pos, truncate(r.o.Text, 200))
	}
	// locked obligations that were not regenerated. Obligations named after a contract clause (post, assert, invariants,
	// measures, frames, preconditions of callees) must still be generated: losing one means the contract no longer binds
	// (exit 2). Obligations named after the source text of a statement (nil, bounds, ...) disappear whenever that statement
	// is edited, renamed or removed; the edited statement raises obligations of its own under a new name, which are
	// attempted like any other (and reported as violations when they fail), so a lost name of that kind is only noted.
	var lost, renamed []string
	for _, d := range lp.Discharged {
		if generated[d] {
			continue
		}
		kind := d
		if i := strings.Index(kind, "#"); i >= 0 {
			kind = kind[i+1:]
		}
		if i := strings.Index(kind, ":"); i >= 0 {
			kind = kind[:i]
		}
		switch kind {
		case "nil", "bounds", "slice", "div", "typeassert", "makeslice", "mapwrite", "ownwrite", "ownread", "guarded", "atomiconly", "mapkeys":
			renamed = append(renamed, d)
		default:
			lost = append(lost, d)
		}
	}
	for _, l := range lost {
		fmt.Printf("BINDING-LOST property=%s obligation=%s (claimed in the lock file, not regenerated from the current tree)\n", prop, l)
	}
	if len(renamed) > 0 {
		fmt.Printf("NOTE property=%s: %d statement-level obligations of the lock file were not regenerated (their statements were edited); the obligations of the edited statements were attempted under their new names, e.g. %s\n", prop, len(renamed), renamed[0])
	}
	for _, be := range eng.bindingErrors {
		fmt.Printf("BINDING-ERROR property=%s %s\n", prop, be)
	}
	for _, e := range pr.errors {
		fmt.Printf("ENGINE-NOTE property=%s %s\n", prop, e)
	}
	if len(pr.results) == 0 {
		fmt.Printf("ENGINE-ERROR property=%s: no obligations generated\n", prop)
		exit = 2
	}
	// bounded stand-ins for the parts of a property no contract within reach decides (labelled bounded, never counted as
	// discharged): a failure is a violation with the failing input, unless the known-findings file lists it
	boundedNotes = nil
	if prop == "C18" {
		br := runC18RoundTrip(repo, dir)
		if br.Err != "" {
			fmt.Printf("ENGINE-ERROR property=%s: bounded check %s: %s\n", prop, br.Label, br.Err)
			exit = 2
		} else {
			boundedNotes = append(boundedNotes, br.Summary)
			for _, bf := range br.Failures {
				if f, ok := known[bf.Name]; ok {
					fmt.Printf("KNOWN-FINDING: property=%s %s\n", prop, f.What)
					knownHit = append(knownHit, bf.Name)
					continue
				}
				violations++
				exit = 1
				rd := replayDir
				if noEvidence {
					rd = filepath.Join(dir, "replays")
				}
				os.MkdirAll(rd, 0o755)
				rp := filepath.Join(rd, sanitizeFile(bf.Name)+".json")
				rec := map[string]interface{}{"property": prop, "obligation": bf.Name, "kind": "bounded", "clause": bf.Text, "failing_input": bf.Detail, "confirmed_on_real_code": true, "replay": bf.Confirm}
				data, _ := json.MarshalIndent(rec, "", " ")
				os.WriteFile(rp, data, 0o644)
				fmt.Printf("VIOLATION property=%s replay=%s\n", prop, rp)
				fmt.Printf("  failed obligation %s (bounded check, failing input found) %s\n", bf.Name, truncate(bf.Text, 300))
			}
		}
	}
	for _, v := range pr.vacuous {
		fmt.Printf("ENGINE-ERROR property=%s: assumptions of %s are contradictory (vacuous proof)\n", prop, v)
		exit = 2
	}
	for _, c := range pr.canaryBad {
		fmt.Printf("ENGINE-ERROR property=%s: %s\n", prop, c)
		exit = 2
	}
	if (len(lost) > 0 || len(eng.bindingErrors) > 0 || len(pr.errors) > 0) && exit == 0 {
		// a claimed contract no longer binds: not a solver verdict; report loudly, fail the machinery check
		exit = 2
	}
	if !noEvidence {
		writeEvidence(eng, pr, prop, tier, verif, discharged, failedUnclaimed, knownHit, lost, samples, byBackend, violations, time.Since(start).Seconds())
	}
	fmt.Printf("property %s: %d obligations, %d discharged, %d known findings, %d unclaimed-unproved, %d violations (%.1fs)\n",
		prop, len(pr.results), len(discharged), len(knownHit), len(failedUnclaimed), violations, time.Since(start).Seconds())
	return exit
}

var boundedNotes []string

func countNotBounded(names []string) int {
	n := 0
	for _, x := range names {
		if !strings.HasPrefix(x, "bounded:") {
			n++
		}
	}
	return n
}

func boundedNotesOrEmpty() []string {
	if boundedNotes == nil {
		return []string{}
	}
	return boundedNotes
}

func writeEvidence(eng *Engine, pr *propRun, prop, tier, verif string, discharged, unclaimed, knownHit, lost []string, samples []map[string]interface{}, byBackend map[string]int, violations int, wall float64) {
	seed := 0
	fmt.Sscan(os.Getenv("VERIF_SEED"), &seed)
	var funcs []map[string]interface{}
	assume := map[string]bool{}
	for _, rep := range pr.reports {
		f := map[string]interface{}{"function": rep.Key, "file": rep.File}
		if rep.Trusted {
			f["trusted"] = true
			assume["trusted contract (body not verified): "+rep.Key] = true
		}
		if rep.Err != "" {
			f["error"] = rep.Err
		}
		kinds := map[string]int{}
		for _, o := range rep.Obligations {
			kinds[o.Kind]++
		}
		f["obligations_by_kind"] = kinds
		f["inlined_callees"] = rep.Inlined
		f["abstracted_callees"] = rep.Abstracted
		f["contracts_used_at_calls"] = rep.UsedContr
		if len(rep.AssumedTerm) > 0 {
			f["callees_assumed_to_terminate"] = rep.AssumedTerm
		}
		for _, u := range rep.UsedContr {
			if c := eng.contracts.Funcs[u]; c != nil && c.Trusted {
				assume["assumed contract of "+u] = true
			}
		}
		for _, a := range rep.Abstracted {
			assume["callee abstracted by havoc of its write set: "+a] = true
		}
		for _, w := range rep.Warnings {
			assume["model: "+w] = true
		}
		funcs = append(funcs, f)
	}
	axUsed := map[string]bool{}
	for _, r := range pr.results {
		for _, a := range r.ax {
			axUsed[a] = true
		}
	}
	for a := range axUsed {
		if ax := eng.contracts.Axioms[a]; ax != nil && !ax.Lemma {
			assume["axiom "+a+": "+ax.Text] = true
		}
	}
	for _, s := range []string{
		"go/ssa lowering (x/tools v0.29.0, NaiveForm) and the SMT solvers z3 5.1.0 / z3 4.8.12 / cvc5 1.0.x are trusted",
		"integers are mathematical with an explicit wrap at every +,-,* and conversion (machine arithmetic modelled exactly); bit operations are uninterpreted",
		"float64 is the SMT FloatingPoint(11,53) theory; int<->float conversions and math functions other than IsNaN/IsInf/Abs/Floor/Ceil/Trunc are uninterpreted",
		"strings are an uninterpreted sort with len/at/cat/sub/lt symbols; standard-library string, strconv, time, unicode functions are deterministic uninterpreted functions",
		"an interface holding a typed nil pointer is identified with the nil interface; interface equality is reference equality",
		"partial correctness on non-panicking paths: goroutines, channels, select and recover are not modelled (a function using them has its heap havocked at that point)",
		"loops without an invariant are abstracted by havoc of their write set; termination is not proved",
		"language fact assumed at the head of every range loop over a slice or array: the hidden index is -1 or an index below the length taken before the loop (go/ssa lowering of the range statement)",
		"language fact assumed for every range loop over a map with a scalar key: each iteration produces an entry that was not produced before; when the iteration ends every entry was produced, provided the body (callees by static write sets) adds no entry to the map (see DESIGN 10.5 for the two cases)",
		"generated sweep stubs verify methods with a pointer receiver for non-nil receivers only (requires <receiver> != nil)",
	} {
		assume[s] = true
	}
	var assumptions []string
	for a := range assume {
		assumptions = append(assumptions, a)
	}
	sort.Strings(assumptions)
	level := "proof"
	cov := map[string]interface{}{
		"obligations":               len(discharged) + countNotBounded(knownHit) + violations,
		"discharged":                len(discharged),
		"checker_cmd":               fmt.Sprintf("bin/csvqvc check %s --tier %s", prop, tier),
		"trusted_base":              []string{"csvqvc VC generator (this repository, /verif/engine)", "golang.org/x/tools/go/ssa v0.29.0", "z3 5.1.0", "z3 4.8.12", "cvc5 1.0"},
		"functions_under_contract":  funcs,
		"discharged_by_backend":     byBackend,
		"solver_seconds_total":      pr.solverSec,
		"samples":                   samples,
		"unclaimed_unproved":        unclaimed,
		"unclaimed_not_attempted":   pr.skipped,
		"known_findings_reproduced": knownHit,
		"binding_lost":              lost,
		"binding_errors":            eng.bindingErrors,
		"bounded":                   boundedNotesOrEmpty(),
		"rule":                      "one obligation per contract clause conjunct / loop-invariant conjunct / call-site precondition / safety condition; each is a universally quantified statement over all inputs satisfying the function's requires",
	}
	if len(samples) == 0 {
		cov["samples"] = []map[string]interface{}{{"note": "no obligation discharged in this run"}}
	}
	ev := map[string]interface{}{
		"property_id": prop, "tier": tier, "seed": seed, "level": level, "coverage": cov,
		"assumptions": assumptions, "wall_s": wall, "violations": violations,
	}
	os.MkdirAll(filepath.Join(verif, "evidence"), 0o755)
	data, _ := json.MarshalIndent(ev, "", " ")
	os.WriteFile(filepath.Join(verif, "evidence", prop+".json"), data, 0o644)
}

func runLock(props []string, repo, verif string, tmo int) int {
	eng, err := NewEngine(repo, verif)
	if err != nil {
		fmt.Fprintln(os.Stderr, err)
		return 2
	}
	dir := scratchDir()
	defer os.RemoveAll(dir)
	var lock LockFile
	path := filepath.Join(verif, "contracts.lock.json")
	if data, err := os.ReadFile(path); err == nil {
		json.Unmarshal(data, &lock)
	}
	if lock.Properties == nil {
		lock.Properties = map[string]*LockProp{}
	}
	if len(props) == 0 {
		seen := map[string]bool{}
		for _, k := range eng.contracts.Order {
			for _, p := range eng.contracts.Funcs[k].Props {
				if !seen[p] && p != "CANARY" {
					seen[p] = true
					props = append(props, p)
				}
			}
		}
		sort.Strings(props)
	}
	timeout := 10 * time.Second
	if tmo > 0 {
		timeout = time.Duration(tmo) * time.Second
	}
	findings := readFindings(filepath.Join(verif, "known_findings.txt"))
	for _, p := range props {
		pr := runProperty(eng, p, timeout, dir)
		lp := &LockProp{Discharged: []string{}, Unclaimed: []string{}}
		// second opinion without the load of the parallel first pass: what did not discharge within 5 s there is tried
		// again a few at a time (wall-clock times of a 16-way parallel run are noisy)
		var again []*Obligation
		idx := map[string]int{}
		prevUnclaimed := map[string]bool{}
		if prev := lock.Properties[p]; prev != nil && os.Getenv("CSVQVC_RELOCK_ALL") == "" {
			// obligations that were already unclaimed at the previous lock are not tried a second time
			for _, u := range prev.Unclaimed {
				prevUnclaimed[u] = true
			}
		}
		for i, r := range pr.results {
			if !(r.res.Status == "unsat" && r.res.Seconds <= 5) && r.res.Status != "sat" && !prevUnclaimed[r.o.Name] {
				again = append(again, r.o)
				idx[r.o.Name] = i
			}
		}
		if len(again) > 0 && len(again) <= 400 {
			for _, r2 := range solveAll(eng, again, timeout, dir, 3) {
				if r2.res.Status == "unsat" {
					if i, ok := idx[r2.o.Name]; ok && (pr.results[i].res.Status != "unsat" || r2.res.Seconds < pr.results[i].res.Seconds) {
						pr.results[i] = r2
					}
				}
			}
		}
		// stability: an obligation that needed more than 1.5 s is solved a second time; it is claimed only if it
		// discharges within 5 s both times (slow queries are the unstable ones)
		{
			var slow []*Obligation
			sidx := map[string]int{}
			for i, r := range pr.results {
				if r.res.Status == "unsat" && r.res.Seconds > 1.5 && r.res.Seconds <= 5 {
					slow = append(slow, r.o)
					sidx[r.o.Name] = i
				}
			}
			if len(slow) > 0 {
				for _, r2 := range solveAll(eng, slow, timeout, dir, 4) {
					if i, ok := sidx[r2.o.Name]; ok && !(r2.res.Status == "unsat" && r2.res.Seconds <= 5) {
						fmt.Printf("UNSTABLE %s %s (%.1fs then %s %.1fs)\n", p, r2.o.Name, pr.results[i].res.Seconds, r2.res.Status, r2.res.Seconds)
						pr.results[i].res.Seconds = 999
					}
				}
			}
		}
		for _, r := range pr.results {
			if r.res.Status == "unsat" {
				// claim only obligations that discharge well inside the quick timeout (20 s): 5 s here
				if r.res.Seconds <= 5 {
					lp.Discharged = append(lp.Discharged, r.o.Name)
				} else {
					lp.Unclaimed = append(lp.Unclaimed, r.o.Name)
				}
				continue
			}
			isKnown := false
			for _, f := range findings {
				if f.Kind == "known" && f.Property == p && f.Obligation == r.o.Name {
					isKnown = true
				}
			}
			if !isKnown {
				lp.Unclaimed = append(lp.Unclaimed, r.o.Name)
				fmt.Printf("UNCLAIMED %s %s (%s)\n", p, r.o.Name, r.res.Status)
			}
		}
		sort.Strings(lp.Discharged)
		sort.Strings(lp.Unclaimed)
		lock.Properties[p] = lp
		fmt.Printf("locked %s: %d discharged, %d unclaimed\n", p, len(lp.Discharged), len(lp.Unclaimed))
	}
	data, _ := json.MarshalIndent(lock, "", " ")
	os.WriteFile(path, data, 0o644)
	for _, be := range eng.bindingErrors {
		fmt.Println("BINDING-ERROR", be)
	}
	return 0
}

// tryReplay: placeholder for model replay adapters (see replay.go).
func tryReplay(eng *Engine, r oblResult, verif string) (bool, string) {
	return replayObligation(eng, r, verif)
}

// runCore: debugging aid. Prints an unsat core (as terms) of the hypotheses of one obligation.
func runCore(args []string, repo, verif string) int {
	eng, err := NewEngine(repo, verif)
	if err != nil {
		fmt.Fprintln(os.Stderr, err)
		return 2
	}
	rep := eng.verifyFunc(args[0])
	if rep.Err != "" {
		fmt.Println(rep.Err)
		return 2
	}
	dir := scratchDir()
	defer os.RemoveAll(dir)
	fmt.Println(len(rep.Obligations), "obligations")
	if args[1] == "reach" {
		rep.Obligations = append(rep.Obligations, &Obligation{Name: "reach", exec: rep.exec, NAssume: rep.NAssumeEnd, PC: rep.ReachPC, Goal: False})
	}
	for _, o := range rep.Obligations {
		if !strings.Contains(o.Name, args[1]) {
			continue
		}
		hyps := append([]*Term{}, o.exec.assumes[:o.NAssume]...)
		hyps = append(hyps, o.PC, Not(o.Goal))
		sc := &Script{Asserts: hyps}
		text := sc.Render("ALL", nil, false)
		// name the assertions
		lines := strings.Split(text, "\n")
		var out []string
		n := 0
		idx := map[string]int{}
		started := false
		for _, l := range lines {
			if strings.HasPrefix(l, "(assert ") && strings.HasSuffix(l, ")") {
				// only the trailing block of len(hyps) asserts are ours; name all, map the last ones
				name := fmt.Sprintf("a%d", n)
				idx[name] = n
				n++
				l = "(assert (! " + l[len("(assert "):len(l)-1] + " :named " + name + "))"
				started = true
			}
			_ = started
			if l == "(check-sat)" {
				out = append(out, l, "(get-unsat-core)")
				continue
			}
			out = append(out, l)
		}
		script := "(set-option :produce-unsat-cores true)\n" + strings.Join(out, "\n")
		file := filepath.Join(dir, "core.smt2")
		os.WriteFile(file, []byte(script), 0o644)
		res, _ := execCmd("z3-new", "-T:60", file)
		fmt.Println(o.Name, "->", firstLine(res))
		total := n
		first := total - len(hyps)
		for _, w := range strings.Fields(strings.NewReplacer("(", " ", ")", " ").Replace(res)) {
			if k, ok := idx[w]; ok {
				if k >= first {
					fmt.Printf("  [%d] %s\n", k-first, hyps[k-first].Short())
				} else {
					fmt.Printf("  [builtin axiom %d]\n", k)
				}
			}
		}
	}
	return 0
}

func execCmd(name string, args ...string) (string, error) {
	out, err := exec.Command(name, args...).CombinedOutput()
	return string(out), err
}

// oblPrefix: "<function>#<kind>" of an obligation name.
func oblPrefix(name string) string {
	i := strings.Index(name, "#")
	if i < 0 {
		return name
	}
	rest := name[i+1:]
	if j := strings.Index(rest, ":"); j >= 0 {
		return name[:i+1+j]
	}
	return name
}
