package main

// Contract files: comment-only Go files whose lines start with "//@".

import (
	"fmt"
	"os"
	"regexp"
	"strconv"
	"strings"
)

type Clause struct {
	Label string
	Text  string
	E     *Expr
	File  string
	Line  int
}

type LoopSpec struct {
	Invariants []Clause
	Decreases  *Clause
	Steps      []Clause // two-state relations of one iteration: old(e) is e at the head of the iteration
	Modifies   []ModTarget
	HasMod     bool
}

type PointAssert struct {
	Callee string // short callee name, e.g. "os.Remove"
	Ord    int    // 1-based ordinal among calls to that callee in source order (0 = every)
	Clause Clause
	Before bool // evaluated in the state just before the call (arg0, arg1, ... name the arguments)
}

type ModTarget struct {
	Text   string
	E      *Expr
	Elts   bool // x[*]: the elements of slice x
	All    bool
	Fresh  bool     // anything allocated since the function was entered
	Except []string // with All: heap key prefixes that are left untouched
	Key    string   // raw heap key (e.g. for ghost vars)
}

type FuncContract struct {
	Pkg           string // package name of the file the contract was read from
	Key           string // canonical short function name
	Props         []string
	Requires      []Clause
	Ensures       []Clause
	Modifies      []ModTarget // nil: unspecified
	HasMod        bool
	Loops         map[int]*LoopSpec
	Asserts       []PointAssert
	Trusted       bool
	Inline        bool
	Terminates    bool                   // termination obligations: loop measures and recursion measure
	Decreases     *Clause                // function-level measure for (self-)recursive calls
	GhostSets     []GhostSet             // ghost assignments performed on entry (specification state updated by this function)
	OwnReads      []string               // heap key prefixes: plain loads from these keys must read objects allocated by this activation
	Callbacks     map[string][]ModTarget // assumed frame of calls through a function-valued parameter (what any callback handed in may write)
	WritesThrough []string               // captured variables a worker literal may store through (nil: not declared)
	GoOwns        []string               // captured variables of a goroutine body that only this goroutine touches while it runs: their cell and element storage survive its channel operations
	AtomicOnly    []string               // captured variables of a goroutine body that may only be accessed through sync/atomic: no plain load or store may touch their cell
	Guards        []Guard                // lock discipline: plain accesses to these keys need the condition
	MapKeys       []Guard                // domain refinement: every key stored into a map with this domain key satisfies Cond ($key)
	Abstract      map[string]bool        // callees that are not inlined while this function is verified: their effect is their static write set
	PointSets     []PointSet
	OwnWrites     []string        // heap key prefixes: stores into these keys must target objects allocated by this activation
	Calls         []string        // parameters holding functions the callee may invoke: their write sets are added at call sites
	Reveal        map[string]bool // opaque spec functions unfolded while verifying this function
	NoPanic       bool            // claim: no reachable panic instruction / bounds failure
	Safety        bool            // generate bounds/nil/div obligations
	File          string
	Line          int
}

// Guard: every plain load or store of a heap key with the prefix needs Cond (typically: the mutex is held).
type Guard struct {
	Prefix string
	Cond   Clause
}

// PointSet: a ghost assignment at a program point (after a call made by the function's own body).
type PointSet struct {
	Callee string
	Ord    int
	Set    GhostSet
}

type GhostSet struct {
	Var  string
	E    *Expr
	Text string
}

type SpecParam struct {
	Name string
	Type string
}

type SpecFunc struct {
	Pkg    string
	Name   string
	Params []SpecParam
	Ret    string
	Body   *Expr
	Text   string
	Reads  []string // declared heap footprint of an uninterpreted function (heap keys it depends on)
	Opaque bool     // used as an uninterpreted function of its arguments and heap footprint unless revealed
	foot   []string // heap keys the body reads (computed on demand)
	footOK bool
}

type Axiom struct {
	Pkg    string
	Name   string
	E      *Expr
	Text   string
	Lemma  bool
	Inv    bool // global state invariant (established by package initialisation, stability checked)
	Props  []string
	Uses   []string // axioms / lemmas to assume when proving this lemma
	Reveal []string
	File   string
	Line   int
}

type GhostVar struct {
	Pkg  string
	Name string
	Type string
}

type ContractSet struct {
	Funcs  map[string]*FuncContract
	Specs  map[string]*SpecFunc
	Axioms map[string]*Axiom
	Ghosts map[string]*GhostVar
	Invs   []*Axiom
	Order  []string // function keys in file order
	AxOrd  []string
	Files  []string
	// raw counts for the assumption scan
	TrustedList []string
}

func newContractSet() *ContractSet {
	return &ContractSet{Funcs: map[string]*FuncContract{}, Specs: map[string]*SpecFunc{}, Axioms: map[string]*Axiom{}, Ghosts: map[string]*GhostVar{}}
}

var keywordRe = regexp.MustCompile(`^(func|property|requires|ensures|modifies|loop|assert|trusted|inline|nopanic|safety|spec|axiom|lemma|invariant|ghostset|ghost|use|reveal|calls|ownwrites|ownreads|abstract|atomiconly|goroutineowns|writesthrough|callback|guarded|mapkeys|terminates|decreases|package)\b`)
var labelRe = regexp.MustCompile(`^\[([A-Za-z0-9_.<>=%+\-]+)\]\s*(.*)$`)

func canonFuncName(pkg, decl string) string {
	decl = strings.TrimSpace(decl)
	// forms: Name | (*T).Name | (T).Name | pkg.Name | (*pkg.T).Name | Name$1
	if strings.HasPrefix(decl, "(") {
		end := strings.Index(decl, ")")
		recv := decl[1:end]
		rest := decl[end+1:]
		star := ""
		if strings.HasPrefix(recv, "*") {
			star = "*"
			recv = recv[1:]
		}
		if !strings.Contains(recv, ".") {
			recv = pkg + "." + recv
		}
		return "(" + star + recv + ")" + rest
	}
	if !strings.Contains(decl, ".") {
		return pkg + "." + decl
	}
	return decl
}

func (cs *ContractSet) parseFile(path string, defaultPkg string) error {
	data, err := os.ReadFile(path)
	if err != nil {
		return err
	}
	cs.Files = append(cs.Files, path)
	pkg := defaultPkg
	type item struct {
		kw   string
		text string
		line int
	}
	var items []item
	for n, raw := range strings.Split(string(data), "\n") {
		l := strings.TrimSpace(raw)
		if strings.HasPrefix(l, "package ") && pkg == "" {
			pkg = strings.TrimSpace(strings.TrimPrefix(l, "package "))
		}
		if !strings.HasPrefix(l, "//@") {
			continue
		}
		body := strings.TrimSpace(strings.TrimPrefix(l, "//@"))
		if body == "" || strings.HasPrefix(body, "#") || strings.HasPrefix(body, "//") {
			continue
		}
		// strip trailing comment
		if i := strings.Index(body, " // "); i >= 0 {
			body = strings.TrimSpace(body[:i])
		}
		if m := keywordRe.FindString(body); m != "" {
			items = append(items, item{m, strings.TrimSpace(body[len(m):]), n + 1})
		} else if len(items) > 0 {
			items[len(items)-1].text += " " + body
		} else {
			return fmt.Errorf("%s:%d: continuation line without a clause", path, n+1)
		}
	}
	var cur *FuncContract
	var curAx *Axiom
	mkClause := func(text string, line int) (Clause, error) {
		c := Clause{File: path, Line: line}
		if m := labelRe.FindStringSubmatch(text); m != nil {
			c.Label = m[1]
			text = m[2]
		}
		c.Text = text
		e, err := ParseExpr(text)
		if err != nil {
			return c, fmt.Errorf("%s:%d: %v", path, line, err)
		}
		c.E = e
		return c, nil
	}
	for _, it := range items {
		switch it.kw {
		case "package":
			pkg = it.text
		case "func":
			key := canonFuncName(pkg, it.text)
			if _, dup := cs.Funcs[key]; dup {
				return fmt.Errorf("%s:%d: duplicate contract for %s", path, it.line, key)
			}
			cur = &FuncContract{Pkg: pkg, Key: key, Loops: map[int]*LoopSpec{}, File: path, Line: it.line}
			cs.Funcs[key] = cur
			cs.Order = append(cs.Order, key)
			curAx = nil
		case "property":
			ps := strings.Fields(it.text)
			if curAx != nil {
				curAx.Props = append(curAx.Props, ps...)
			} else if cur != nil {
				cur.Props = append(cur.Props, ps...)
			} else {
				return fmt.Errorf("%s:%d: property outside func/lemma", path, it.line)
			}
		case "requires", "ensures":
			if cur == nil {
				return fmt.Errorf("%s:%d: %s outside func", path, it.line, it.kw)
			}
			c, err := mkClause(it.text, it.line)
			if err != nil {
				return err
			}
			if it.kw == "requires" {
				cur.Requires = append(cur.Requires, c)
			} else {
				cur.Ensures = append(cur.Ensures, c)
			}
		case "modifies":
			if cur == nil {
				return fmt.Errorf("%s:%d: modifies outside func", path, it.line)
			}
			cur.HasMod = true
			if cur.Modifies == nil {
				cur.Modifies = []ModTarget{}
			}
			mts, err := parseModTargets(it.text)
			if err != nil {
				return fmt.Errorf("%s:%d: %v", path, it.line, err)
			}
			cur.Modifies = append(cur.Modifies, mts...)
		case "loop":
			if cur == nil {
				return fmt.Errorf("%s:%d: loop outside func", path, it.line)
			}
			f := strings.SplitN(it.text, " ", 3)
			if len(f) < 3 {
				return fmt.Errorf("%s:%d: loop <k> invariant|decreases <expr>", path, it.line)
			}
			k, err := strconv.Atoi(f[0])
			if err != nil {
				return fmt.Errorf("%s:%d: bad loop ordinal", path, it.line)
			}
			ls := cur.Loops[k]
			if ls == nil {
				ls = &LoopSpec{}
				cur.Loops[k] = ls
			}
			if f[1] == "modifies" {
				mts, err := parseModTargets(f[2])
				if err != nil {
					return fmt.Errorf("%s:%d: %v", path, it.line, err)
				}
				ls.HasMod = true
				ls.Modifies = append(ls.Modifies, mts...)
				continue
			}
			c, err := mkClause(f[2], it.line)
			if err != nil {
				return err
			}
			switch f[1] {
			case "invariant":
				ls.Invariants = append(ls.Invariants, c)
			case "decreases":
				ls.Decreases = &c
			case "step":
				ls.Steps = append(ls.Steps, c)
			default:
				return fmt.Errorf("%s:%d: loop clause must be invariant, step or decreases", path, it.line)
			}
		case "assert":
			// assert after call <callee>[#n]: expr
			if cur == nil {
				return fmt.Errorf("%s:%d: assert outside func", path, it.line)
			}
			before := strings.HasPrefix(it.text, "before call ")
			if before {
				it.text = "after" + strings.TrimPrefix(it.text, "before")
			}
			m := regexp.MustCompile(`^after call (\S+?)(?:#(\d+|\*))?\s*:\s*(.*)$`).FindStringSubmatch(it.text)
			if m == nil {
				return fmt.Errorf("%s:%d: assert after|before call <callee>[#n]: <expr>", path, it.line)
			}
			ord := 0
			if m[2] == "*" {
				ord = -1 // every such call, possibly none (a guard against a call the code does not make today)
			} else if m[2] != "" {
				ord, _ = strconv.Atoi(m[2])
			}
			c, err := mkClause(m[3], it.line)
			if err != nil {
				return err
			}
			callee := m[1]
			if !strings.Contains(callee, ".") {
				callee = pkg + "." + callee
			}
			cur.Asserts = append(cur.Asserts, PointAssert{Callee: callee, Ord: ord, Clause: c, Before: before})
		case "trusted":
			if cur == nil {
				return fmt.Errorf("%s:%d: trusted outside func", path, it.line)
			}
			cur.Trusted = true
			cs.TrustedList = append(cs.TrustedList, cur.Key+" ("+it.text+")")
		case "ghostset":
			if cur == nil {
				return fmt.Errorf("%s:%d: ghostset outside func", path, it.line)
			}
			if m := regexp.MustCompile(`^after call (\S+?)(?:#(\d+|\*))?\s*:\s*([A-Za-z_][A-Za-z0-9_]*)\s*=\s*(.*)$`).FindStringSubmatch(it.text); m != nil {
				// program-point ghost update: executed in the verified function right after the matching calls of its own body
				ord := 0
				if m[2] == "*" {
					ord = -1
				} else if m[2] != "" {
					ord, _ = strconv.Atoi(m[2])
				}
				callee := m[1]
				if !strings.Contains(callee, ".") {
					callee = pkg + "." + callee
				}
				e, err := ParseExpr(m[4])
				if err != nil {
					return fmt.Errorf("%s:%d: %v", path, it.line, err)
				}
				cur.PointSets = append(cur.PointSets, PointSet{Callee: callee, Ord: ord, Set: GhostSet{Var: m[3], E: e, Text: it.text}})
				break
			}
			i := strings.Index(it.text, "=")
			if i < 0 {
				return fmt.Errorf("%s:%d: ghostset <var> = <expr>", path, it.line)
			}
			e, err := ParseExpr(it.text[i+1:])
			if err != nil {
				return fmt.Errorf("%s:%d: %v", path, it.line, err)
			}
			cur.GhostSets = append(cur.GhostSets, GhostSet{Var: strings.TrimSpace(it.text[:i]), E: e, Text: it.text})
		case "ownwrites":
			if cur == nil {
				return fmt.Errorf("%s:%d: ownwrites outside func", path, it.line)
			}
			cur.OwnWrites = append(cur.OwnWrites, strings.Fields(it.text)...)
		case "ownreads":
			if cur == nil {
				return fmt.Errorf("%s:%d: ownreads outside func", path, it.line)
			}
			cur.OwnReads = append(cur.OwnReads, strings.Fields(it.text)...)
		case "guarded":
			// guarded <key prefix> by <expr>
			if cur == nil {
				return fmt.Errorf("%s:%d: guarded outside func", path, it.line)
			}
			m := regexp.MustCompile(`^(\S+)\s+by\s+(.*)$`).FindStringSubmatch(it.text)
			if m == nil {
				return fmt.Errorf("%s:%d: guarded <key prefix> by <expr>", path, it.line)
			}
			c, err := mkClause(m[2], it.line)
			if err != nil {
				return err
			}
			cur.Guards = append(cur.Guards, Guard{Prefix: m[1], Cond: c})
		case "mapkeys":
			// mapkeys <MD: key prefix> by <expr over $key>
			if cur == nil {
				return fmt.Errorf("%s:%d: mapkeys outside func", path, it.line)
			}
			m := regexp.MustCompile(`^(\S+)\s+by\s+(.*)$`).FindStringSubmatch(it.text)
			if m == nil {
				return fmt.Errorf("%s:%d: mapkeys <key prefix> by <expr>", path, it.line)
			}
			c, err := mkClause(m[2], it.line)
			if err != nil {
				return err
			}
			cur.MapKeys = append(cur.MapKeys, Guard{Prefix: m[1], Cond: c})
		case "abstract":
			// abstract <callee>...: sound over-approximation that keeps the obligations of a large function small
			if cur == nil {
				return fmt.Errorf("%s:%d: abstract outside func", path, it.line)
			}
			if cur.Abstract == nil {
				cur.Abstract = map[string]bool{}
			}
			for _, n := range strings.Fields(strings.ReplaceAll(it.text, ",", " ")) {
				if n != "*" && !strings.Contains(n, ".") {
					n = pkg + "." + n
				}
				cur.Abstract[n] = true
			}
		case "atomiconly":
			if cur == nil {
				return fmt.Errorf("%s:%d: atomiconly outside func", path, it.line)
			}
			cur.AtomicOnly = append(cur.AtomicOnly, strings.Fields(strings.ReplaceAll(it.text, ",", " "))...)
		case "callback":
			if cur == nil {
				return fmt.Errorf("%s:%d: callback outside func", path, it.line)
			}
			f := strings.SplitN(it.text, " ", 3)
			if len(f) < 3 || f[1] != "modifies" {
				return fmt.Errorf("%s:%d: callback <parameter> modifies <targets>", path, it.line)
			}
			mts, err := parseModTargets(f[2])
			if err != nil {
				return fmt.Errorf("%s:%d: %v", path, it.line, err)
			}
			if cur.Callbacks == nil {
				cur.Callbacks = map[string][]ModTarget{}
			}
			cur.Callbacks[f[0]] = append(cur.Callbacks[f[0]], mts...)
			cs.TrustedList = append(cs.TrustedList, cur.Key+" (assumed frame of the callback "+f[0]+": modifies "+f[2]+")")
		case "writesthrough":
			if cur == nil {
				return fmt.Errorf("%s:%d: writesthrough outside func", path, it.line)
			}
			if cur.WritesThrough == nil {
				cur.WritesThrough = []string{}
			}
			cur.WritesThrough = append(cur.WritesThrough, strings.Fields(strings.ReplaceAll(it.text, ",", " "))...)
		case "goroutineowns":
			if cur == nil {
				return fmt.Errorf("%s:%d: goroutineowns outside func", path, it.line)
			}
			cur.GoOwns = append(cur.GoOwns, strings.Fields(strings.ReplaceAll(it.text, ",", " "))...)
		case "calls":
			if cur == nil {
				return fmt.Errorf("%s:%d: calls outside func", path, it.line)
			}
			cur.Calls = append(cur.Calls, strings.Fields(strings.ReplaceAll(it.text, ",", " "))...)
		case "terminates":
			// every loop of the function (and of the callees inlined into it) needs a decreases clause, except
			// range loops over slices; a recursive call needs the function-level measure to decrease
			cur.Terminates = true
		case "decreases":
			if cur == nil {
				return fmt.Errorf("%s:%d: decreases outside func", path, it.line)
			}
			c, err := mkClause(it.text, it.line)
			if err != nil {
				return err
			}
			cur.Decreases = &c
		case "inline":
			cur.Inline = true
		case "nopanic":
			cur.NoPanic = true
		case "safety":
			cur.Safety = true
		case "spec":
			// spec func name(a T, b U) R [= expr]
			m := regexp.MustCompile(`^(func|def|opaque)\s+([A-Za-z_][A-Za-z0-9_]*)\s*\(([^)]*)\)\s*([^=]*?)\s*(?:=\s*(.*))?$`).FindStringSubmatch(it.text)
			if m == nil {
				return fmt.Errorf("%s:%d: bad spec declaration: %s", path, it.line, it.text)
			}
			sf := &SpecFunc{Pkg: pkg, Name: m[2], Ret: strings.TrimSpace(m[4]), Text: it.text, Opaque: m[1] == "opaque"}
			if i := strings.Index(sf.Ret, " reads "); i >= 0 {
				sf.Reads = strings.Fields(sf.Ret[i+7:])
				sf.Ret = strings.TrimSpace(sf.Ret[:i])
			}
			if strings.TrimSpace(m[3]) != "" {
				for _, p := range strings.Split(m[3], ",") {
					f := strings.Fields(strings.TrimSpace(p))
					if len(f) != 2 {
						return fmt.Errorf("%s:%d: bad spec parameter %q", path, it.line, p)
					}
					sf.Params = append(sf.Params, SpecParam{f[0], f[1]})
				}
			}
			if m[5] != "" {
				e, err := ParseExpr(m[5])
				if err != nil {
					return fmt.Errorf("%s:%d: %v", path, it.line, err)
				}
				sf.Body = e
			}
			if _, dup := cs.Specs[sf.Name]; dup {
				return fmt.Errorf("%s:%d: duplicate spec %s", path, it.line, sf.Name)
			}
			cs.Specs[sf.Name] = sf
			cur, curAx = nil, nil
		case "axiom", "lemma", "invariant":
			i := strings.Index(it.text, ":")
			if i < 0 {
				return fmt.Errorf("%s:%d: %s name: expr", path, it.line, it.kw)
			}
			name := strings.TrimSpace(it.text[:i])
			e, err := ParseExpr(it.text[i+1:])
			if err != nil {
				return fmt.Errorf("%s:%d: %v", path, it.line, err)
			}
			ax := &Axiom{Pkg: pkg, Name: name, E: e, Text: strings.TrimSpace(it.text[i+1:]), Lemma: it.kw == "lemma", File: path, Line: it.line}
			if _, dup := cs.Axioms[name]; dup {
				return fmt.Errorf("%s:%d: duplicate axiom/lemma %s", path, it.line, name)
			}
			if it.kw == "invariant" {
				ax.Inv = true
				cs.Invs = append(cs.Invs, ax)
				cs.TrustedList = append(cs.TrustedList, "invariant "+name+" (established by package initialisation): "+ax.Text)
				curAx, cur = nil, nil
				continue
			}
			cs.Axioms[name] = ax
			cs.AxOrd = append(cs.AxOrd, name)
			curAx = ax
			cur = nil
			if !ax.Lemma {
				cs.TrustedList = append(cs.TrustedList, "axiom "+name+": "+ax.Text)
			}
		case "reveal":
			names := strings.Fields(strings.ReplaceAll(it.text, ",", " "))
			if cur != nil {
				if cur.Reveal == nil {
					cur.Reveal = map[string]bool{}
				}
				for _, n := range names {
					cur.Reveal[n] = true
				}
			} else if curAx != nil {
				curAx.Reveal = append(curAx.Reveal, names...)
			} else {
				return fmt.Errorf("%s:%d: reveal outside func/lemma", path, it.line)
			}
		case "use":
			if curAx == nil {
				return fmt.Errorf("%s:%d: use outside lemma", path, it.line)
			}
			curAx.Uses = append(curAx.Uses, strings.Fields(strings.ReplaceAll(it.text, ",", " "))...)
		case "ghost":
			f := strings.Fields(it.text)
			if len(f) != 3 || f[0] != "var" {
				return fmt.Errorf("%s:%d: ghost var <name> <type>", path, it.line)
			}
			cs.Ghosts[f[1]] = &GhostVar{Pkg: pkg, Name: f[1], Type: f[2]}
		}
	}
	return nil
}

func parseModTargets(text string) ([]ModTarget, error) {
	var out []ModTarget
	for _, part := range splitTop(text) {
		part = strings.TrimSpace(part)
		switch {
		case part == "nothing" || part == "":
		case part == "fresh":
			out = append(out, ModTarget{Text: part, Fresh: true})
		case part == "*":
			out = append(out, ModTarget{Text: part, All: true})
		case strings.HasPrefix(part, "* except "):
			out = append(out, ModTarget{Text: part, All: true, Except: strings.Fields(strings.TrimPrefix(part, "* except "))})
		case strings.HasPrefix(part, "key:"):
			out = append(out, ModTarget{Text: part, Key: strings.TrimPrefix(part, "key:")})
		default:
			mt := ModTarget{Text: part}
			if strings.HasSuffix(part, "[*]") {
				mt.Elts = true
				part = strings.TrimSuffix(part, "[*]")
			}
			e, err := ParseExpr(part)
			if err != nil {
				return nil, err
			}
			mt.E = e
			out = append(out, mt)
		}
	}
	return out, nil
}

// splitTop splits on commas that are not nested in brackets.
func splitTop(s string) []string {
	var out []string
	depth := 0
	start := 0
	for i, c := range s {
		switch c {
		case '(', '[':
			depth++
		case ')', ']':
			depth--
		case ',':
			if depth == 0 {
				out = append(out, s[start:i])
				start = i + 1
			}
		}
	}
	out = append(out, s[start:])
	return out
}
