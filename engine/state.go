package main

// Symbolic state: path condition, locals, versioned heap.

import (
	"fmt"
	"sort"
	"strings"

	"golang.org/x/tools/go/ssa"
)

type heapParent struct {
	cond *Term
	h    *Heap
}

type HeapBase struct {
	id     int
	merged []heapParent
	memo   map[string]*Term
	wm     *Term // watermark bounding the references held by the symbolic arrays of this base
	// keys with one of these prefixes are not havocked: they read through to exceptParent
	except       []string
	exceptParent *Heap
}

var heapBaseCounter int

func newHeapBase() *HeapBase {
	heapBaseCounter++
	return &HeapBase{id: heapBaseCounter, memo: map[string]*Term{}}
}

func (b *HeapBase) lookup(key string, s *Sort) *Term {
	if t, ok := b.memo[key]; ok {
		return t
	}
	var t *Term
	for _, p := range b.except {
		if strings.HasPrefix(key, p) {
			t = b.exceptParent.Get(key, s)
			b.memo[key] = t
			return t
		}
	}
	if b.merged == nil {
		t = Const(fmt.Sprintf("%s@%d", key, b.id), s)
		regHeapConst(t, key, b.wm)
	} else {
		t = b.merged[len(b.merged)-1].h.Get(key, s)
		for i := len(b.merged) - 2; i >= 0; i-- {
			t = Ite(b.merged[i].cond, b.merged[i].h.Get(key, s), t)
		}
	}
	b.memo[key] = t
	return t
}

type Heap struct {
	m    map[string]*Term
	base *HeapBase
}

func newHeap(wm *Term) *Heap {
	h := &Heap{m: map[string]*Term{}, base: newHeapBase()}
	h.base.wm = wm
	return h
}

func (h *Heap) Get(key string, s *Sort) *Term {
	if t, ok := h.m[key]; ok {
		if t.Sort != s {
			panic(fmt.Sprintf("heap key %s sort mismatch: have %s want %s", key, t.Sort, s))
		}
		return t
	}
	return h.base.lookup(key, s)
}

func (h *Heap) clone() *Heap {
	n := &Heap{m: make(map[string]*Term, len(h.m)), base: h.base}
	for k, v := range h.m {
		n.m[k] = v
	}
	return n
}

type State struct {
	pc     *Term
	locals map[*ssa.Alloc][]*Term
	heap   *Heap
	wm     *Term
}

func (s *State) clone() *State {
	n := &State{pc: s.pc, locals: make(map[*ssa.Alloc][]*Term, len(s.locals)), heap: s.heap.clone(), wm: s.wm}
	for k, v := range s.locals {
		n.locals[k] = v // slices are treated as immutable: writers copy
	}
	return n
}

func iteChain(conds []*Term, vals []*Term) *Term {
	t := vals[len(vals)-1]
	for i := len(vals) - 2; i >= 0; i-- {
		t = Ite(conds[i], vals[i], t)
	}
	return t
}

func mergeStates(sts []*State) *State {
	if len(sts) == 1 {
		return sts[0].clone()
	}
	conds := make([]*Term, len(sts))
	for i, s := range sts {
		conds[i] = s.pc
	}
	out := &State{pc: Or(conds...), locals: map[*ssa.Alloc][]*Term{}}
	// locals
	allocs := map[*ssa.Alloc]bool{}
	for _, s := range sts {
		for a := range s.locals {
			allocs[a] = true
		}
	}
	for a := range allocs {
		var cs []*Term
		var vs [][]*Term
		for i, s := range sts {
			if v, ok := s.locals[a]; ok {
				cs = append(cs, conds[i])
				vs = append(vs, v)
			}
		}
		n := len(vs[0])
		merged := make([]*Term, n)
		for j := 0; j < n; j++ {
			col := make([]*Term, len(vs))
			for i := range vs {
				col[i] = vs[i][j]
			}
			merged[j] = iteChain(cs, col)
		}
		out.locals[a] = merged
	}
	// watermark
	wms := make([]*Term, len(sts))
	for i, s := range sts {
		wms[i] = s.wm
	}
	out.wm = iteChain(conds, wms)
	// heap
	sameBase := true
	for _, s := range sts {
		if s.heap.base != sts[0].heap.base {
			sameBase = false
		}
	}
	if sameBase {
		keys := map[string]*Sort{}
		for _, s := range sts {
			for k, v := range s.heap.m {
				keys[k] = v.Sort
			}
		}
		h := &Heap{m: map[string]*Term{}, base: sts[0].heap.base}
		var ks []string
		for k := range keys {
			ks = append(ks, k)
		}
		sort.Strings(ks)
		for _, k := range ks {
			vals := make([]*Term, len(sts))
			for i, s := range sts {
				vals[i] = s.heap.Get(k, keys[k])
			}
			h.m[k] = iteChain(conds, vals)
		}
		out.heap = h
	} else {
		b := newHeapBase()
		for i, s := range sts {
			b.merged = append(b.merged, heapParent{conds[i], s.heap})
		}
		out.heap = &Heap{m: map[string]*Term{}, base: b}
	}
	return out
}
