package main

// Symbolic executor over go/ssa (NaiveForm): one forward pass per function, loops cut at their heads
// (invariant asserted on entry and on every back edge, modified state havocked), states merged at joins.

import (
	"fmt"
	"go/constant"
	"go/token"
	"go/types"
	"os"
	"sort"
	"strings"

	"golang.org/x/tools/go/ssa"
)

type Obligation struct {
	Name      string
	Func      string
	Kind      string
	NAssume   int // prefix of Exec.assumes that may be used
	PC        *Term
	Goal      *Term
	Text      string // source text of the clause / checked expression
	Pos       string
	Extra     []*Term // extra hypotheses (lemma uses)
	exec      *Exec
	Result    *SolveResult
	Script    string
	lemmaUses []string
}

type Exec struct {
	eng           *Engine
	topFn         *ssa.Function
	inClosureCall bool    // a function literal is being called through its contract: it may write the variables it captures
	pointArgs     []Value // arguments of the call a before-call assertion is attached to (arg0, arg1, ...)
	topC          *FuncContract
	assumes       []*Term
	assumeSeen    map[int]bool
	obligations   []*Obligation
	warnings      []string
	warnSeen      map[string]bool
	safety        bool
	inlineDepth   int
	nameCount     map[string]int
	abstracted    map[string]bool // callees abstracted (havoc)
	inlined       map[string]bool
	usedContr     map[string]bool
	callBindings  []Value                 // closure bindings of the call whose contract is being applied
	callFn        *ssa.Function           // and its function
	hc            map[*Term]heapConstInfo // heap-constant registry of this run (names are reused across functions)
	paramsCurrent bool                    // program-point assertions and ghost updates: a reassigned parameter means its current value
	topFrame      *Frame                  // frame of the function under verification (entry state and arguments: replay)
	pointSetHit   map[int]bool
	assertHit     map[int]bool    // program-point assertions of the top contract that met their call
	assumedTerm   map[string]bool // callees under contract assumed to terminate (no `terminates` of their own)
	budget        int
	inSpec        int
	usedInv       map[string]bool
	readKeys      map[string]bool
	specMemo      map[string]Value
	readLog       *[]heapRead
	reveal        map[string]bool
}

type deferred struct {
	pc   *Term
	call *ssa.CallCommon
	args []Value
	fnv  Value
	in   *ssa.Defer
}

type Frame struct {
	fn          *ssa.Function
	regs        map[ssa.Value]Value
	params      map[*ssa.Parameter]Value
	freeVars    map[*ssa.FreeVar]Value
	defers      []deferred
	top         bool
	contract    *FuncContract
	entry       *State
	args        []Value
	callOrd     map[string]int
	srcOrd      map[ssa.Instruction]int
	srcCnt      map[string]int
	depth       int
	parent      *Frame
	allocSeq    []*ssa.Alloc
	curLoop     *loopInfo
	results     []Value // at ensures time
	loopHeads   map[*loopInfo]*State
	loopPre     map[*loopInfo]*State
	loopMeasure map[*loopInfo]*Term
	mapLoopMode map[*ssa.Range]int   // map range loops: what is known when the iteration ends (see loopHead)
	loopIter    map[*loopInfo]*State // state at the head of an arbitrary iteration (for step clauses)
}

func (ex *Exec) warn(format string, a ...interface{}) {
	s := fmt.Sprintf(format, a...)
	if !ex.warnSeen[s] {
		ex.warnSeen[s] = true
		ex.warnings = append(ex.warnings, s)
	}
}

// assumePath restricts attention to executions that continue (no panic at this point): meaningless while
// evaluating a specification expression, where it is skipped.
func (ex *Exec) assumePath(pc *Term, fact *Term) {
	if ex.inSpec > 0 {
		return
	}
	ex.assume(pc, fact)
}

func (ex *Exec) assume(pc *Term, fact *Term) {
	if fact.Op == "and" {
		for _, c := range fact.Args {
			ex.assume(pc, c)
		}
		return
	}
	if fact.Op == "=>" && fact.Args[1].Op == "and" {
		for _, c := range fact.Args[1].Args {
			ex.assume(And(pc, fact.Args[0]), c)
		}
		return
	}
	t := Implies(pc, fact)
	if t == True {
		return
	}
	if ex.assumeSeen[t.id] {
		return
	}
	ex.assumeSeen[t.id] = true
	ex.assumes = append(ex.assumes, t)
}

func (ex *Exec) oblName(fn string, kind, label string) string {
	base := fn + "#" + kind + ":" + label
	ex.nameCount[base]++
	if n := ex.nameCount[base]; n > 1 {
		return fmt.Sprintf("%s~%d", base, n)
	}
	return base
}

func (ex *Exec) prove(fnName string, st *State, kind, label string, goal *Term, text string, pos token.Pos) {
	if goal == True {
		// still record: trivially discharged obligations count (they document what was checked)
	}
	// obligations raised inside an inlined callee belong to the function under verification
	top := fnName
	if ex.topFn != nil {
		top = shortName(ex.topFn.String())
		if ex.topC != nil {
			top = ex.topC.Key
		}
		if fnName != top && fnName != shortName(ex.topFn.String()) {
			label = fnName + "/" + label
		}
	}
	o := &Obligation{Name: ex.oblName(top, kind, label), Func: top, Kind: kind, NAssume: len(ex.assumes), PC: st.pc, Goal: goal, Text: text, exec: ex}
	if pos.IsValid() {
		p := ex.eng.fset.Position(pos)
		o.Pos = fmt.Sprintf("%s:%d", strings.TrimPrefix(p.Filename, ex.eng.repo+"/"), p.Line)
	}
	ex.obligations = append(ex.obligations, o)
}

// ---------------------------------------------------------------------------------------------
// typed-value facts

func (ex *Exec) assumeTyped(st *State, v Value) {
	l := layout(v.T)
	if len(l) != len(v.C) {
		return
	}
	for i, c := range l {
		t := v.C[i]
		if t.Op == "int" || t.Op == "true" || t.Op == "false" {
			continue
		}
		switch c.Kind {
		case "int":
			ex.assume(st.pc, inRange(t, c.GoT))
		case "ref", "sbase":
			ex.assume(st.pc, And(Ge(t, IntLit(0)), Le(t, st.wm)))
		case "soff":
			ex.assume(st.pc, Ge(t, IntLit(0)))
		case "slen":
			ex.assume(st.pc, And(Ge(t, IntLit(0)), Le(t, v.C[i+1])))
			if i >= 2 {
				ex.assume(st.pc, Implies(Eq(v.C[i-2], IntLit(0)), Eq(v.C[i+1], IntLit(0))))
			}
		case "scap":
			if c.GoT != nil {
				ex.assume(st.pc, Le(t, BigLit(maxSliceCap(c.GoT))))
			} else {
				ex.assume(st.pc, Le(t, BigLit(maxInt64)))
			}
		case "str":
			ex.assume(st.pc, Ge(UF("str_len", IntSort, t), IntLit(0)))
		}
	}
}

// ---------------------------------------------------------------------------------------------
// locations

func compSorts(t types.Type) []*Sort {
	l := layout(t)
	out := make([]*Sort, len(l))
	for i, c := range l {
		out[i] = c.Sort
	}
	return out
}

func (ex *Exec) readLoc(st *State, loc *Loc) Value {
	l := layout(loc.T)
	v := Value{T: loc.T, C: make([]*Term, len(l))}
	for j, c := range l {
		k := loc.Off + j
		switch loc.Kind {
		case LLocal:
			cs, ok := st.locals[loc.Alloc]
			if !ok {
				cs = zeroValue(derefType(loc.Alloc.Type())).C
			}
			v.C[j] = cs[k]
		case LRef:
			v.C[j] = Select(st.heap.Get(loc.Keys[k], ArraySort(IntSort, c.Sort)), loc.Ref)
		case LElem:
			v.C[j] = Select(Select(st.heap.Get(loc.Keys[k], ArraySort(IntSort, ArraySort(IntSort, c.Sort))), loc.Ref), loc.Idx)
		case LGlobal:
			if ex.eng.immutableGlobal[loc.Keys[k]] {
				v.C[j] = Const(loc.Keys[k]+"@init", c.Sort)
			} else {
				v.C[j] = st.heap.Get(loc.Keys[k], c.Sort)
			}
		}
		if ex.readKeys != nil && loc.Kind != LLocal {
			ex.readKeys[loc.Keys[k]] = true
		}
		if ex.readLog != nil && loc.Kind != LLocal {
			*ex.readLog = append(*ex.readLog, heapRead{loc.Keys[k], v.C[j]})
		}
	}
	return v
}

func (ex *Exec) writeLoc(st *State, loc *Loc, val Value) {
	l := layout(loc.T)
	if len(val.C) != len(l) {
		panic(fmt.Sprintf("writeLoc: %d components into %s (%d)", len(val.C), typeStr(loc.T), len(l)))
	}
	if loc.Kind == LLocal {
		old, ok := st.locals[loc.Alloc]
		if !ok {
			old = zeroValue(derefType(loc.Alloc.Type())).C
		}
		n := make([]*Term, len(old))
		copy(n, old)
		for j := range l {
			n[loc.Off+j] = val.C[j]
		}
		st.locals[loc.Alloc] = n
		return
	}
	for j, c := range l {
		k := loc.Off + j
		switch loc.Kind {
		case LRef:
			s := ArraySort(IntSort, c.Sort)
			st.heap.m[loc.Keys[k]] = Store(st.heap.Get(loc.Keys[k], s), loc.Ref, val.C[j])
		case LElem:
			s := ArraySort(IntSort, ArraySort(IntSort, c.Sort))
			arr := st.heap.Get(loc.Keys[k], s)
			st.heap.m[loc.Keys[k]] = Store(arr, loc.Ref, Store(Select(arr, loc.Ref), loc.Idx, val.C[j]))
		case LGlobal:
			st.heap.m[loc.Keys[k]] = val.C[j]
		}
	}
}

// ownWriteCheck: stores into the keys a contract reserves (ownwrites) must hit objects this activation allocated.
func (ex *Exec) ownWriteCheck(fr *Frame, st *State, loc *Loc, fname string, pos token.Pos) {
	if ex.topC == nil {
		return
	}
	ex.atomicOnlyCheck(fr, st, loc, pos, "store")
	ex.guardCheck(fr, st, loc, pos, "store")
	ex.ownAccessCheck(fr, st, loc, fname, pos, ex.topC.OwnWrites, "ownwrite", "store into")
}

// ownReadCheck: plain loads from the keys a contract reserves (ownreads) must read objects this activation allocated
// (goroutine bodies: what another goroutine may write is read only through channels, atomics or under a lock).
func (ex *Exec) ownReadCheck(fr *Frame, st *State, loc *Loc, fname string, pos token.Pos) {
	if ex.topC == nil || loc == nil {
		return
	}
	ex.atomicOnlyCheck(fr, st, loc, pos, "load")
	ex.guardCheck(fr, st, loc, pos, "load")
	ex.ownAccessCheck(fr, st, loc, fname, pos, ex.topC.OwnReads, "ownread", "load from")
}

// atomicOnlyCheck: a plain load or store must not touch the cell of a captured variable the contract reserves for
// sync/atomic access.
// guardCheck: lock discipline. A plain access to a guarded key needs the guard's condition in the current state.
func (ex *Exec) guardCheck(fr *Frame, st *State, loc *Loc, pos token.Pos, verb string) {
	if ex.topC == nil || len(ex.topC.Guards) == 0 || ex.inSpec > 0 || loc == nil || loc.Kind != LRef || ex.topFn == nil {
		return
	}
	var top *Frame
	for f := fr; f != nil; f = f.parent {
		top = f
	}
	n := len(layout(loc.T))
	for gi, g := range ex.topC.Guards {
		hit := false
		for j := 0; j < n && loc.Off+j < len(loc.Keys); j++ {
			if strings.HasPrefix(loc.Keys[loc.Off+j], g.Prefix) {
				hit = true
			}
		}
		if !hit {
			continue
		}
		cond, err := ex.compileBool(top, st, top.entry, g.Cond.E, true)
		if err != nil {
			ex.bindingError(shortName(ex.topFn.String()), "guarded", fmt.Sprint(gi+1), g.Cond, err)
			continue
		}
		ex.prove(shortName(ex.topFn.String()), st, "guarded", g.Prefix+":"+ex.srcLabel(pos), cond, "plain "+verb+" of "+loc.Keys[loc.Off]+" needs: "+g.Cond.Text, pos)
	}
}

func (ex *Exec) atomicOnlyCheck(fr *Frame, st *State, loc *Loc, pos token.Pos, verb string) {
	if ex.topC == nil || len(ex.topC.AtomicOnly) == 0 || ex.inSpec > 0 || loc == nil || loc.Kind != LRef || ex.topFn == nil {
		return
	}
	var top *Frame
	for f := fr; f != nil; f = f.parent {
		top = f
	}
	for _, name := range ex.topC.AtomicOnly {
		var fv *ssa.FreeVar
		for _, v := range ex.topFn.FreeVars {
			if v.Name() == name {
				fv = v
			}
		}
		if fv == nil {
			ex.eng.bindingErrors = append(ex.eng.bindingErrors, fmt.Sprintf("%s: atomiconly %s: not a captured variable", shortName(ex.topFn.String()), name))
			continue
		}
		keys := refKeys(derefType(fv.Type()))
		if len(keys) == 0 || loc.Off >= len(loc.Keys) || loc.Keys[loc.Off] != keys[0] {
			continue
		}
		cell := ex.val(top, st, fv).one()
		ex.prove(shortName(ex.topFn.String()), st, "atomiconly", name+":"+ex.srcLabel(pos), Not(Eq(loc.Ref, cell)), "plain "+verb+" of "+name+", a variable shared between goroutines that may only be accessed through sync/atomic", pos)
	}
}

func (ex *Exec) ownAccessCheck(fr *Frame, st *State, loc *Loc, fname string, pos token.Pos, prefixes []string, kind, verb string) {
	if len(prefixes) == 0 || ex.inSpec > 0 || loc.Kind == LLocal || loc.Kind == LGlobal {
		return
	}
	hit := false
	n := len(layout(loc.T))
	for j := 0; j < n && !hit; j++ {
		for _, p := range prefixes {
			if strings.HasPrefix(loc.Keys[loc.Off+j], p) {
				hit = true
			}
		}
	}
	if !hit {
		return
	}
	var entry *Term
	for f := fr; f != nil; f = f.parent {
		if f.entry != nil {
			entry = f.entry.wm
		}
	}
	if entry == nil {
		return
	}
	ex.prove(shortName(ex.topFn.String()), st, kind, ex.srcLabel(pos), Gt(loc.Ref, entry), verb+" shared storage ("+loc.Keys[loc.Off]+"): the target must be an object allocated by this activation", pos)
}

func (ex *Exec) allocRef(st *State) *Term {
	if ex.inSpec > 0 {
		// allocation while evaluating a specification expression: a reference of its own, never the
		// number of a real allocation of the program (which would tie two dynamic types to one reference)
		r := Fresh("specref", IntSort)
		ex.assume(True, Gt(r, st.wm))
		st.wm = r
		return r
	}
	r := Add(st.wm, IntLit(1))
	st.wm = r
	return r
}

func (ex *Exec) tagOf(t types.Type) *Term {
	return IntLit(int64(ex.eng.tagID(t)))
}

func dyntype(ref *Term) *Term { return UF("dyntype", IntSort, ref) }

// pointer value -> location of its pointee
func (ex *Exec) derefLoc(st *State, p Value) *Loc {
	if p.Loc != nil {
		return p.Loc
	}
	et := derefType(p.T)
	return &Loc{Kind: LRef, Ref: p.one(), Keys: refKeys(et), T: et}
}

// ---------------------------------------------------------------------------------------------
// CFG info

type loopInfo struct {
	head       *ssa.BasicBlock
	ordinal    int
	blocks     []*ssa.BasicBlock
	backs      map[*ssa.BasicBlock]bool // sources of back edges
	rangeIx    *ssa.Alloc
	rangeLen   ssa.Value  // the length the range index is compared with in the head block (computed before the loop)
	mapRange   *ssa.Range // `for k, v := range m` over a map with a scalar key: the iterator advanced by the head block
	mapGrows   bool       // the body stores into a map of that type (possibly another map object)
	mapDeletes bool       // the body deletes from a map of that type
}

// visitedKey: heap key of the set of keys a map range loop has visited so far (specification state: visited(k) in the
// invariants of that loop). One per range statement, named by the position of the statement inside its function.
func visitedKey(rng *ssa.Range) (string, *Sort) {
	mt := rng.X.Type().Underlying().(*types.Map)
	ks := mapKeySort(mt)
	idx := 0
	if b := rng.Block(); b != nil {
		for j, in := range b.Instrs {
			if in == ssa.Instruction(rng) {
				idx = b.Index*1000 + j
			}
		}
	}
	srt := ArraySort(ks, BoolSort)
	return regKey(fmt.Sprintf("VS:%s:%d", shortName(rng.Parent().String()), idx), srt), srt
}

type cfgInfo struct {
	order []*ssa.BasicBlock
	loops map[*ssa.BasicBlock]*loopInfo
	back  map[[2]int]bool // (from,to) block indices
}

func (eng *Engine) cfg(fn *ssa.Function) *cfgInfo {
	if c, ok := eng.cfgCache[fn]; ok {
		return c
	}
	ci := &cfgInfo{loops: map[*ssa.BasicBlock]*loopInfo{}, back: map[[2]int]bool{}}
	// back edges
	for _, b := range fn.Blocks {
		for _, s := range b.Succs {
			if s.Dominates(b) {
				ci.back[[2]int{b.Index, s.Index}] = true
				li := ci.loops[s]
				if li == nil {
					li = &loopInfo{head: s, backs: map[*ssa.BasicBlock]bool{}}
					ci.loops[s] = li
				}
				li.backs[b] = true
			}
		}
	}
	// natural loop bodies
	for h, li := range ci.loops {
		in := map[*ssa.BasicBlock]bool{h: true}
		var stack []*ssa.BasicBlock
		for b := range li.backs {
			if !in[b] {
				in[b] = true
				stack = append(stack, b)
			}
		}
		for len(stack) > 0 {
			b := stack[len(stack)-1]
			stack = stack[:len(stack)-1]
			for _, p := range b.Preds {
				if !in[p] {
					in[p] = true
					stack = append(stack, p)
				}
			}
		}
		for _, b := range fn.Blocks {
			if in[b] {
				li.blocks = append(li.blocks, b)
			}
		}
		// range index variable: an alloc named rangeindex stored in the head block
		for _, in := range h.Instrs {
			if s, ok := in.(*ssa.Store); ok {
				if a, ok := s.Addr.(*ssa.Alloc); ok && a.Comment == "rangeindex" {
					li.rangeIx = a
				}
			}
		}
		for _, in := range h.Instrs {
			if n, ok := in.(*ssa.Next); ok && !n.IsString {
				if rng, ok := n.Iter.(*ssa.Range); ok {
					if mt, ok := rng.X.Type().Underlying().(*types.Map); ok && mapKeySort(mt) != nil {
						li.mapRange = rng
						for _, b := range li.blocks {
							for _, bi := range b.Instrs {
								switch x := bi.(type) {
								case *ssa.MapUpdate:
									if types.Identical(x.Map.Type().Underlying(), mt) {
										li.mapGrows = true
									}
								case ssa.CallInstruction:
									if bl, isB := x.Common().Value.(*ssa.Builtin); isB && bl.Name() == "delete" && len(x.Common().Args) > 0 && types.Identical(x.Common().Args[0].Type().Underlying(), mt) {
										li.mapDeletes = true
									}
								}
							}
						}
					}
				}
			}
		}
		if li.rangeIx != nil {
			// head block of a range loop over a slice / array: t1 = *rangeindex; t2 = t1 + 1; *rangeindex = t2; t3 = t2 < len
			for _, in := range h.Instrs {
				if b, ok := in.(*ssa.BinOp); ok && b.Op == token.LSS {
					if x, ok := b.X.(*ssa.BinOp); ok && x.Op == token.ADD {
						if u, ok := x.X.(*ssa.UnOp); ok && u.Op == token.MUL && u.X == ssa.Value(li.rangeIx) {
							li.rangeLen = b.Y
						}
					}
				}
			}
		}
	}
	// loop ordinals in source order of their head blocks
	var heads []*ssa.BasicBlock
	for h := range ci.loops {
		heads = append(heads, h)
	}
	sort.Slice(heads, func(i, j int) bool { return heads[i].Index < heads[j].Index })
	for i, h := range heads {
		ci.loops[h].ordinal = i + 1
	}
	// reverse postorder ignoring back edges
	visited := map[*ssa.BasicBlock]bool{}
	var post []*ssa.BasicBlock
	var dfs func(b *ssa.BasicBlock)
	// innermost loop of every block
	inner := map[*ssa.BasicBlock]*loopInfo{}
	for _, li := range ci.loops {
		for _, b := range li.blocks {
			if cur, ok := inner[b]; !ok || len(li.blocks) < len(cur.blocks) {
				inner[b] = li
			}
		}
	}
	inLoop := func(li *loopInfo, b *ssa.BasicBlock) bool {
		for _, x := range li.blocks {
			if x == b {
				return true
			}
		}
		return false
	}
	dfs = func(b *ssa.BasicBlock) {
		visited[b] = true
		// successors that leave the innermost loop of b are visited first, so that they finish first and come
		// later in the reverse postorder: the body of a loop is executed before the code after the loop, and the
		// obligations of the body do not carry the assumptions of everything that follows the loop
		succs := append([]*ssa.BasicBlock{}, b.Succs...)
		if li := inner[b]; li != nil {
			var out, in []*ssa.BasicBlock
			for _, s := range succs {
				if inLoop(li, s) {
					in = append(in, s)
				} else {
					out = append(out, s)
				}
			}
			succs = append(out, in...)
		}
		for _, s := range succs {
			if ci.back[[2]int{b.Index, s.Index}] {
				continue
			}
			if !visited[s] {
				dfs(s)
			}
		}
		post = append(post, b)
	}
	if len(fn.Blocks) > 0 {
		dfs(fn.Blocks[0])
	}
	for i := len(post) - 1; i >= 0; i-- {
		ci.order = append(ci.order, post[i])
	}
	eng.cfgCache[fn] = ci
	return ci
}

// ---------------------------------------------------------------------------------------------
// function body execution

type retRec struct {
	st   *State
	vals []Value
}

const maxInlineDepth = 4

func (ex *Exec) execBody(fr *Frame, st0 *State) ([]Value, *State) {
	fn := fr.fn
	ci := ex.eng.cfg(fn)
	incoming := map[*ssa.BasicBlock][]*State{}
	incomingPred := map[*ssa.BasicBlock][]*ssa.BasicBlock{}
	incoming[fn.Blocks[0]] = []*State{st0}
	incomingPred[fn.Blocks[0]] = []*ssa.BasicBlock{nil}
	var rets []retRec
	fname := shortName(fn.String())
	for _, b := range ci.order {
		ins := incoming[b]
		if len(ins) == 0 {
			continue
		}
		// drop infeasible (pc == false) edges
		var live []*State
		var livePred []*ssa.BasicBlock
		for i, s := range ins {
			if s.pc != False {
				live = append(live, s)
				livePred = append(livePred, incomingPred[b][i])
			}
		}
		if len(live) == 0 {
			continue
		}
		st := mergeStates(live)
		// phi nodes need per-edge conditions
		edgeOf := map[*ssa.BasicBlock]*Term{}
		for i, p := range livePred {
			if p != nil {
				if old, ok := edgeOf[p]; ok {
					edgeOf[p] = Or(old, live[i].pc)
				} else {
					edgeOf[p] = live[i].pc
				}
			}
		}
		if li := ci.loops[b]; li != nil {
			ex.loopHead(fr, st, li, fname)
			fr.curLoop = li
		}
		for _, in := range b.Instrs {
			if st.pc == False {
				break
			}
			switch i := in.(type) {
			case *ssa.Phi:
				var conds, cols []*Term
				var vals []Value
				for k, e := range i.Edges {
					p := b.Preds[k]
					c, ok := edgeOf[p]
					if !ok {
						continue
					}
					conds = append(conds, c)
					vals = append(vals, ex.val(fr, st, e))
				}
				if len(vals) == 0 {
					fr.regs[i] = freshValue("phi", i.Type())
					break
				}
				n := len(vals[0].C)
				out := Value{T: i.Type(), C: make([]*Term, n)}
				for j := 0; j < n; j++ {
					cols = cols[:0]
					for _, v := range vals {
						cols = append(cols, v.C[j])
					}
					out.C[j] = iteChain(conds, cols)
				}
				fr.regs[i] = out
			case *ssa.If:
				c := ex.val(fr, st, i.Cond).one()
				ex.edge(fr, ci, b, b.Succs[0], st, And(st.pc, c), incoming, incomingPred, fname)
				ex.edge(fr, ci, b, b.Succs[1], st, And(st.pc, Not(c)), incoming, incomingPred, fname)
			case *ssa.Jump:
				ex.edge(fr, ci, b, b.Succs[0], st, st.pc, incoming, incomingPred, fname)
			case *ssa.Return:
				var vals []Value
				for _, r := range i.Results {
					vals = append(vals, ex.val(fr, st, r))
				}
				rets = append(rets, retRec{st.clone(), vals})
			case *ssa.Panic:
				if fr.top && (ex.safety || (fr.contract != nil && fr.contract.NoPanic)) {
					ex.prove(fname, st, "panic", "unreachable", False, "panic(...) must be unreachable", i.Pos())
				}
				st.pc = False
			default:
				if fr.depth > 0 {
					ex.budget--
				}
				ex.instr(fr, st, in, fname)
			}
		}
	}
	if len(rets) == 0 {
		dead := st0.clone()
		dead.pc = False
		var zs []Value
		res := fn.Signature.Results()
		for i := 0; i < res.Len(); i++ {
			zs = append(zs, zeroValue(res.At(i).Type()))
		}
		return zs, dead
	}
	var sts []*State
	for _, r := range rets {
		sts = append(sts, r.st)
	}
	out := mergeStates(sts)
	nres := len(rets[0].vals)
	vals := make([]Value, nres)
	conds := make([]*Term, len(rets))
	for i, r := range rets {
		conds[i] = r.st.pc
	}
	for k := 0; k < nres; k++ {
		n := len(rets[0].vals[k].C)
		v := Value{T: rets[0].vals[k].T, C: make([]*Term, n)}
		for j := 0; j < n; j++ {
			col := make([]*Term, len(rets))
			for i, r := range rets {
				col[i] = r.vals[k].C[j]
			}
			v.C[j] = iteChain(conds, col)
		}
		vals[k] = v
	}
	return vals, out
}

func (ex *Exec) edge(fr *Frame, ci *cfgInfo, from, to *ssa.BasicBlock, st *State, pc *Term, incoming map[*ssa.BasicBlock][]*State, incomingPred map[*ssa.BasicBlock][]*ssa.BasicBlock, fname string) {
	if pc == False {
		return
	}
	s := st.clone()
	s.pc = pc
	if ci.back[[2]int{from.Index, to.Index}] {
		li := ci.loops[to]
		ex.loopBack(fr, s, li, fname)
		return
	}
	incoming[to] = append(incoming[to], s)
	incomingPred[to] = append(incomingPred[to], from)
}

// ---------------------------------------------------------------------------------------------
// loops

func (ex *Exec) loopSpec(fr *Frame, li *loopInfo) *LoopSpec {
	if fr.contract == nil {
		return nil
	}
	return fr.contract.Loops[li.ordinal]
}

func (ex *Exec) loopHead(fr *Frame, st *State, li *loopInfo, fname string) {
	spec := ex.loopSpec(fr, li)
	saved := fr.curLoop
	fr.curLoop = li
	if spec != nil {
		for j, inv := range spec.Invariants {
			label := fmt.Sprintf("L%d:%s", li.ordinal, clauseLabel(inv, j))
			g, err := ex.compileBool(fr, st, fr.entry, inv.E, true)
			if err != nil {
				ex.bindingError(fname, "inv-init", label, inv, err)
				continue
			}
			ex.prove(fname, st, "inv-init", label, g, inv.Text, li.head.Instrs[0].Pos())
		}
	}
	// havoc what the loop may modify
	ws := ex.eng.wa.ofBlocks(li.blocks, fr.fn)
	if spec != nil && spec.HasMod {
		// declared heap frame of the loop: locals still come from the static write set
		pre := st.clone()
		env := ex.frameEnv(fr, pre, fr.entry)
		lw := newWriteSet()
		lw.locals = ws.locals
		lw.alloc = true
		freshOnly := false
		for _, mt := range spec.Modifies {
			if mt.Fresh {
				freshOnly = true
			}
		}
		if freshOnly && !ws.all {
			// objects allocated since entry may change arbitrarily: havoc the statically written keys, keep older objects
			for _, k := range sortedKeyList(ws.keys) {
				lw.keys[k] = true
			}
		}
		ex.havoc(st, lw, fmt.Sprintf("loop%d", li.ordinal), fr)
		if freshOnly && !ws.all {
			for _, k := range sortedKeyList(ws.keys) {
				srt := keySortReg[k]
				if srt == nil || srt.Kind != SArray || srt.Idx != IntSort {
					continue
				}
				r := BoundVar("r", IntSort)
				after := st.heap.Get(k, srt)
				before := pre.heap.Get(k, srt)
				ex.assume(st.pc, Forall([]*Term{r}, Implies(Le(r, fr.entry.wm), Eq(Select(after, r), Select(before, r))), [][]*Term{{Select(after, r)}}))
			}
		}
		ex.havocTargets(st, spec.Modifies, env, fr, fmt.Sprintf("loop %d of %s", li.ordinal, fname))
		if fr.loopHeads == nil {
			fr.loopHeads = map[*loopInfo]*State{}
			fr.loopPre = map[*loopInfo]*State{}
		}
		fr.loopPre[li] = pre
	} else {
		ex.havoc(st, ws, fmt.Sprintf("loop%d", li.ordinal), fr)
	}
	if li.mapRange != nil {
		// the set of visited keys is loop state: arbitrary at the head of an arbitrary iteration (the invariants say what is known)
		k, srt := visitedKey(li.mapRange)
		st.heap.m[k] = Fresh(k+fmt.Sprintf(".loop%d", li.ordinal), srt)
		mt := li.mapRange.X.Type().Underlying().(*types.Map)
		d, _, _ := mapKeys(mt)
		if fr.mapLoopMode == nil {
			fr.mapLoopMode = map[*ssa.Range]int{}
		}
		grows := false
		{
			// callees in the body: entries may be added only if the static write set of the body names the map's domain
			// and something other than the body's own delete() calls can be responsible for it
			cw := newWriteSet()
			for _, b := range li.blocks {
				for _, bi := range b.Instrs {
					if c, ok := bi.(ssa.CallInstruction); ok {
						if bl, isB := c.Common().Value.(*ssa.Builtin); isB && (bl.Name() == "delete" || bl.Name() == "len" || bl.Name() == "cap" || bl.Name() == "append" || bl.Name() == "copy") {
							continue
						}
						ex.eng.wa.instrs([]ssa.Instruction{bi}, cw, fr.fn)
					}
				}
			}
			if cw.all || cw.keys[d] {
				grows = true
			}
		}
		// 0: nothing is known at the exit; 1: the body never adds entries to such a map (it may delete): every entry still
		// present at the exit was produced; 2: the body adds entries to such maps but never deletes: if the key set of the
		// ranged map is the one it had when the iteration started, every entry was produced
		mode := 0
		switch {
		case grows:
		case !li.mapGrows:
			mode = 1
		case !li.mapDeletes:
			mode = 2
		}
		fr.mapLoopMode[li.mapRange] = mode
	}
	if li.rangeIx != nil && li.rangeLen != nil {
		// language fact about `for i := range s`: the hidden index is written by the head block only (previous index + 1, the
		// loop continues while that is below the length taken before the loop): at the head it is -1 or a visited index
		if cs := st.locals[li.rangeIx]; cs != nil && len(cs) == 1 {
			if _, isConst := li.rangeLen.(*ssa.Const); isConst || fr.regs[li.rangeLen].C != nil {
				n := ex.val(fr, st, li.rangeLen)
				if len(n.C) == 1 {
					ex.assume(st.pc, And(Ge(cs[0], IntLit(-1)), Or(Eq(cs[0], IntLit(-1)), Lt(cs[0], n.C[0]))))
				}
			}
		}
	}
	if spec != nil {
		for _, inv := range spec.Invariants {
			g, err := ex.compileBool(fr, st, fr.entry, inv.E, false)
			if err != nil {
				ex.bindingError(fname, "inv-assume", fmt.Sprintf("L%d", li.ordinal), inv, err)
				continue
			}
			ex.assume(st.pc, g)
		}
	}
	if spec != nil && spec.HasMod {
		fr.loopHeads[li] = st.clone()
	}
	if spec != nil && len(spec.Steps) > 0 {
		if fr.loopIter == nil {
			fr.loopIter = map[*loopInfo]*State{}
		}
		fr.loopIter[li] = st.clone()
	}
	if ex.topC != nil && ex.topC.Terminates && ex.inSpec == 0 && (spec == nil || spec.Decreases == nil) && li.rangeIx == nil && !isMapRangeLoop(li) {
		ex.prove(fname, st, "decreases", fmt.Sprintf("L%d:missing", li.ordinal), False, "loop in a function that must terminate has no decreases clause (only range loops over slices and maps are exempt)", li.head.Instrs[0].Pos())
	}
	if spec != nil && spec.Decreases != nil {
		// the measure at the head of an arbitrary iteration: every back edge must arrive with a smaller one
		m, err := ex.compileInt(fr, st, fr.entry, spec.Decreases.E)
		if err != nil {
			ex.bindingError(fname, "decreases", fmt.Sprintf("L%d", li.ordinal), *spec.Decreases, err)
		} else {
			if fr.loopMeasure == nil {
				fr.loopMeasure = map[*loopInfo]*Term{}
			}
			fr.loopMeasure[li] = m
		}
	}
	fr.curLoop = saved
}

func (ex *Exec) loopBack(fr *Frame, st *State, li *loopInfo, fname string) {
	spec := ex.loopSpec(fr, li)
	if spec == nil {
		return
	}
	if os.Getenv("CSVQVC_LOOPS") != "" {
		line := 0
		for _, b := range li.blocks {
			for _, in := range b.Instrs {
				if p := ex.eng.fset.Position(in.Pos()); p.IsValid() && (line == 0 || p.Line < line) {
					line = p.Line
				}
			}
		}
		fmt.Fprintf(os.Stderr, "LOOPBACK %s loop %d (first line %d) depth %d\n", shortName(fr.fn.String()), li.ordinal, line, fr.depth)
	}
	saved := fr.curLoop
	fr.curLoop = li
	for j, inv := range spec.Invariants {
		label := fmt.Sprintf("L%d:%s", li.ordinal, clauseLabel(inv, j))
		g, err := ex.compileBool(fr, st, fr.entry, inv.E, true)
		if err != nil {
			ex.bindingError(fname, "inv-pres", label, inv, err)
			continue
		}
		ex.prove(fname, st, "inv-pres", label, g, inv.Text, li.head.Instrs[0].Pos())
	}
	if head := fr.loopIter[li]; head != nil {
		// per-iteration relation: old(e) is e at the head of this (arbitrary) iteration
		for j, sc := range spec.Steps {
			label := fmt.Sprintf("L%d:%s", li.ordinal, clauseLabel(sc, j))
			g, err := ex.compileBool(fr, st, head, sc.E, true)
			if err != nil {
				ex.bindingError(fname, "step", label, sc, err)
				continue
			}
			ex.prove(fname, st, "step", label, g, sc.Text, li.head.Instrs[0].Pos())
		}
	}
	if spec.Decreases != nil && fr.loopMeasure[li] != nil {
		m, err := ex.compileInt(fr, st, fr.entry, spec.Decreases.E)
		if err != nil {
			ex.bindingError(fname, "decreases", fmt.Sprintf("L%d", li.ordinal), *spec.Decreases, err)
		} else {
			m0 := fr.loopMeasure[li]
			ex.prove(fname, st, "decreases", fmt.Sprintf("L%d", li.ordinal), And(Lt(m, m0), Ge(m0, IntLit(0))), "termination: the measure "+spec.Decreases.Text+" is non-negative and strictly smaller after every iteration", li.head.Instrs[0].Pos())
		}
	}
	if spec.HasMod && fr.loopHeads[li] != nil {
		// the iteration changed nothing outside the declared loop frame (targets evaluated before the loop)
		head := fr.loopHeads[li]
		pre := fr.loopPre[li]
		chk := &State{pc: st.pc, locals: pre.locals, heap: head.heap, wm: head.wm}
		ex.frameObligationsLoop(fr, st, chk, pre, spec.Modifies, fname, fmt.Sprintf("L%d:", li.ordinal))
	}
	fr.curLoop = saved
}

func clauseLabel(c Clause, j int) string {
	if c.Label != "" {
		return c.Label
	}
	return fmt.Sprint(j + 1)
}

func (ex *Exec) bindingError(fname, kind, label string, c Clause, err error) {
	ex.eng.bindingErrors = append(ex.eng.bindingErrors, fmt.Sprintf("%s#%s:%s: %v (%s:%d)", fname, kind, label, err, c.File, c.Line))
}

// assumeInvariants: global state invariants hold in every state reachable by the program.
func (ex *Exec) assumeInvariants(st *State) {
	if ex.inSpec > 0 && ex.topFn == nil {
		return
	}
	for _, inv := range ex.eng.contracts.Invs {
		env := &Env{ex: ex, vars: map[string]Value{}, st: st, old: st, pkg: ex.eng.pkgByName[inv.Pkg]}
		g, err := env.boolExpr(inv.E, false)
		if err != nil {
			ex.eng.bindingErrors = append(ex.eng.bindingErrors, fmt.Sprintf("invariant %s: %v", inv.Name, err))
			continue
		}
		ex.assumePath(st.pc, g)
		ex.usedInv[inv.Name] = true
	}
}

// havoc replaces everything in ws by fresh symbols.
func (ex *Exec) havoc(st *State, ws *WriteSet, why string, fr *Frame) {
	for _, a := range sortedAllocs(ws.locals) {
		if _, ok := st.locals[a]; !ok {
			continue
		}
		t := derefType(a.Type())
		v := freshValue(why+"."+a.Comment, t)
		st.locals[a] = v.C
	}
	if ws.alloc || ws.all {
		nw := Fresh("wm."+why, IntSort)
		ex.assume(st.pc, Ge(nw, st.wm))
		st.wm = nw
	}
	if ws.all {
		ws.dropTouchedExceptions()
		ex.warn("havoc of the whole heap at %s: %s", why, ws.why)
		old := st.heap
		st.heap = newHeap(st.wm)
		// ghost variables are specification state: program code cannot touch them, only contracts that name them
		st.heap.base.except = append(append([]string{}, ws.except...), "GH:")
		if !ws.otherAll {
			// every reason for the havoc is a channel operation of this goroutine: storage only it touches survives
			st.heap.base.except = append(st.heap.base.except, ex.goOwnsKeys()...)
		}
		st.heap.base.exceptParent = old
		// the cell of a captured local variable is reachable only through the function literals that capture it
		// (language fact): unless such a literal is what is being called, or one of them escaped (stored, passed on,
		// started as a goroutine), no callee can change it
		if os.Getenv("CSVQVC_NOPRIVATE") == "" {
			for f := fr; f != nil; f = f.parent {
				ff := f
				pending := func(mc *ssa.MakeClosure) bool {
					// created at most once (not inside a loop) and not yet met by the symbolic execution of this frame
					if _, done := ff.regs[mc]; done {
						return false
					}
					if mc.Parent() != ff.fn {
						return false
					}
					ci := ex.eng.cfg(ff.fn)
					for _, li := range ci.loops {
						for _, b := range li.blocks {
							if b == mc.Block() {
								return false
							}
						}
					}
					return true
				}
				for _, a := range f.allocSeq {
					if !a.Heap || !(privateCell(a) || privateCellAt(a, pending)) {
						if a.Heap && os.Getenv("CSVQVC_DEBUGCELL") != "" {
							fmt.Fprintf(os.Stderr, "CELL not private: %s in %s at %s\n", a.Comment, shortName(f.fn.String()), why)
						}
						continue
					}
					rv, ok := f.regs[a]
					if !ok || len(rv.C) != 1 {
						continue
					}
					if ex.inClosureCall {
						// the literal being called may write the variables it captures, and only those
						captured := ex.callBindings == nil
						for _, b := range ex.callBindings {
							if len(b.C) == 1 && b.C[0] == rv.C[0] {
								captured = true
							}
						}
						if captured {
							continue
						}
					}
					if closureAssigns(a) {
						// a literal that captures the variable assigns it: what a call into such a literal does to it is
						// not tracked here
						continue
					}
					if strings.HasPrefix(why, "loop") && f == fr && fr.curLoop != nil && storedInBlocks(a, fr.curLoop.blocks) {
						// the loop itself assigns the variable
						continue
					}
					for _, k := range refKeys(derefType(a.Type())) {
						srt, ok := keySortReg[k]
						if !ok || srt.Kind != SArray {
							continue
						}
						st.heap.m[k] = Store(st.heap.Get(k, srt), rv.C[0], Select(old.Get(k, srt), rv.C[0]))
					}
				}
			}
		}
		for _, k := range sortedKeyList(ws.keys) {
			if srt, ok := keySortReg[k]; ok {
				st.heap.m[k] = Fresh(k+"."+why, srt)
				regHeapConst(st.heap.m[k], k, st.wm)
			}
		}
	} else {
		for _, k := range sortedKeyList(ws.keys) {
			srt, ok := keySortReg[k]
			if !ok {
				panic("havoc: unregistered heap key " + k)
			}
			st.heap.m[k] = Fresh(k+"."+why, srt)
			regHeapConst(st.heap.m[k], k, st.wm)
		}
	}
	if ws.all || len(ws.keys) > 0 {
		ex.assumeInvariants(st)
	}
	// locals must be re-typed
	for _, a := range sortedAllocs(ws.locals) {
		if cs, ok := st.locals[a]; ok {
			ex.assumeTyped(st, Value{T: derefType(a.Type()), C: cs})
		}
	}
}

// ---------------------------------------------------------------------------------------------
// operand values

var maxInt64 = constant2big(constant.MakeInt64(9223372036854775807))

func (ex *Exec) val(fr *Frame, st *State, v ssa.Value) Value {
	switch x := v.(type) {
	case *ssa.Const:
		return ex.constValue(x)
	case *ssa.Function:
		return Value{T: x.Type(), Fn: x, C: []*Term{IntLit(int64(ex.eng.funcID(x)))}}
	case *ssa.Builtin:
		return Value{T: x.Type(), Bi: x}
	case *ssa.Global:
		t := derefType(x.Type())
		return Value{T: x.Type(), Loc: &Loc{Kind: LGlobal, Keys: globalKeys(x), T: t}}
	case *ssa.FreeVar:
		if fv, ok := fr.freeVars[x]; ok {
			return fv
		}
		// free variable of a closure verified on its own: an arbitrary (allocated) cell
		fv := freshValue("freevar."+x.Name(), x.Type())
		ex.assume(True, And(Gt(fv.C[0], IntLit(0)), Le(fv.C[0], fr.entry.wm)))
		// the language: every captured variable has a cell of its own, so two free variables of one closure that
		// hold cells of the same type are different cells
		for y, other := range fr.freeVars {
			if types.Identical(y.Type(), x.Type()) && len(other.C) == 1 {
				ex.assume(True, Not(Eq(fv.C[0], other.C[0])))
			}
		}
		fr.freeVars[x] = fv
		return fv
	case *ssa.Parameter:
		if pv, ok := fr.params[x]; ok {
			return pv
		}
	}
	if r, ok := fr.regs[v]; ok {
		return r
	}
	ex.warn("value %s (%T) in %s read before definition; treated as arbitrary", v.Name(), v, shortName(fr.fn.String()))
	fv := freshValue("undef."+v.Name(), v.Type())
	fr.regs[v] = fv
	return fv
}

func (ex *Exec) constValue(c *ssa.Const) Value {
	t := c.Type()
	if c.Value == nil {
		return zeroValue(t)
	}
	switch u := t.Underlying().(type) {
	case *types.Basic:
		switch {
		case u.Info()&types.IsBoolean != 0:
			return Value{T: t, C: []*Term{BoolLit(constant.BoolVal(c.Value))}}
		case u.Info()&types.IsInteger != 0:
			return Value{T: t, C: []*Term{BigLit(constant2big(constant.ToInt(c.Value)))}}
		case u.Info()&types.IsFloat != 0:
			f, _ := constant.Float64Val(constant.ToFloat(c.Value))
			return Value{T: t, C: []*Term{F64Lit(f)}}
		case u.Info()&types.IsString != 0:
			return Value{T: t, C: []*Term{StrLit(constant.StringVal(c.Value))}}
		}
	}
	return freshValue("const", t)
}

// ---------------------------------------------------------------------------------------------
// instructions

func (ex *Exec) safetyOn(fr *Frame) bool {
	return fr.top && ex.safety
}

func (ex *Exec) instr(fr *Frame, st *State, in ssa.Instruction, fname string) {
	switch i := in.(type) {
	case *ssa.DebugRef:
	case *ssa.Alloc:
		t := derefType(i.Type())
		fr.allocSeq = append(fr.allocSeq, i)
		if arr, ok := t.Underlying().(*types.Array); ok {
			r := ex.allocRef(st)
			for j, k := range elemKeys(arr.Elem()) {
				c := layout(arr.Elem())[j]
				s := ArraySort(IntSort, ArraySort(IntSort, c.Sort))
				st.heap.m[k] = Store(st.heap.Get(k, s), r, ConstArray(ArraySort(IntSort, c.Sort), zeroComp(c)))
			}
			if i.Heap {
				fr.regs[i] = Value{T: i.Type(), C: []*Term{r}}
			} else {
				st.locals[i] = []*Term{r}
				fr.regs[i] = Value{T: i.Type(), C: []*Term{r}}
			}
			return
		}
		if i.Heap {
			r := ex.allocRef(st)
			z := zeroValue(t)
			ex.writeLoc(st, &Loc{Kind: LRef, Ref: r, Keys: refKeys(t), T: t}, z)
			ex.assume(st.pc, Eq(dyntype(r), ex.tagOf(i.Type())))
			fr.regs[i] = Value{T: i.Type(), C: []*Term{r}}
			return
		}
		st.locals[i] = zeroValue(t).C
		fr.regs[i] = Value{T: i.Type(), Loc: &Loc{Kind: LLocal, Alloc: i, T: t}}
	case *ssa.Store:
		p := ex.val(fr, st, i.Addr)
		v := ex.val(fr, st, i.Val)
		loc := ex.derefLoc(st, p)
		ex.nilCheck(fr, st, p, fname, i.Pos())
		if len(v.C) != len(layout(loc.T)) {
			ex.warn("store of %s into %s: component mismatch in %s", typeStr(v.T), typeStr(loc.T), fname)
			return
		}
		ex.ownWriteCheck(fr, st, loc, fname, i.Pos())
		ex.writeLoc(st, loc, v)
	case *ssa.UnOp:
		ex.unop(fr, st, i, fname)
	case *ssa.BinOp:
		ex.binop(fr, st, i, fname)
	case *ssa.FieldAddr:
		x := ex.val(fr, st, i.X)
		sst := derefType(i.X.Type()).Underlying().(*types.Struct)
		ft := sst.Field(i.Field).Type()
		off := fieldOffset(sst, i.Field)
		if x.Loc != nil {
			nl := *x.Loc
			nl.Off += off
			nl.T = ft
			fr.regs[i] = Value{T: i.Type(), Loc: &nl}
		} else {
			ex.nilCheck(fr, st, x, fname, i.Pos())
			fr.regs[i] = Value{T: i.Type(), Loc: &Loc{Kind: LRef, Ref: x.one(), Keys: refKeys(derefType(i.X.Type())), Off: off, T: ft}}
		}
	case *ssa.Field:
		x := ex.val(fr, st, i.X)
		sst := i.X.Type().Underlying().(*types.Struct)
		off := fieldOffset(sst, i.Field)
		n := len(layout(sst.Field(i.Field).Type()))
		fr.regs[i] = Value{T: i.Type(), C: x.C[off : off+n]}
	case *ssa.IndexAddr:
		x := ex.val(fr, st, i.X)
		idx := ex.val(fr, st, i.Index).one()
		switch xt := i.X.Type().Underlying().(type) {
		case *types.Slice:
			ex.boundsCheck(fr, st, idx, x.C[2], fname, i.Pos(), "index")
			fr.regs[i] = Value{T: i.Type(), Loc: &Loc{Kind: LElem, Ref: x.C[0], Idx: Idx(x.C[1], idx), Keys: elemKeys(xt.Elem()), T: xt.Elem()}}
		case *types.Pointer:
			arr := xt.Elem().Underlying().(*types.Array)
			var ref *Term
			if x.Loc != nil {
				ref = ex.readLoc(st, x.Loc).one()
			} else {
				ref = x.one()
			}
			ex.boundsCheck(fr, st, idx, IntLit(arr.Len()), fname, i.Pos(), "index")
			fr.regs[i] = Value{T: i.Type(), Loc: &Loc{Kind: LElem, Ref: ref, Idx: idx, Keys: elemKeys(arr.Elem()), T: arr.Elem()}}
		default:
			ex.unsupported(fr, st, i, "IndexAddr on "+typeStr(i.X.Type()))
		}
	case *ssa.Index:
		x := ex.val(fr, st, i.X)
		idx := ex.val(fr, st, i.Index).one()
		switch xt := i.X.Type().Underlying().(type) {
		case *types.Basic: // string
			ex.boundsCheck(fr, st, idx, UF("str_len", IntSort, x.one()), fname, i.Pos(), "index")
			fr.regs[i] = Value{T: i.Type(), C: []*Term{UF("str_at", IntSort, x.one(), idx)}}
			ex.assumeTyped(st, fr.regs[i])
		case *types.Array:
			ex.boundsCheck(fr, st, idx, IntLit(xt.Len()), fname, i.Pos(), "index")
			loc := &Loc{Kind: LElem, Ref: x.one(), Idx: idx, Keys: elemKeys(xt.Elem()), T: xt.Elem()}
			fr.regs[i] = ex.readLoc(st, loc)
		default:
			ex.unsupported(fr, st, i, "Index on "+typeStr(i.X.Type()))
		}
	case *ssa.Slice:
		ex.sliceOp(fr, st, i, fname)
	case *ssa.MakeSlice:
		ln := ex.val(fr, st, i.Len).one()
		cp := ex.val(fr, st, i.Cap).one()
		if ex.safetyOn(fr) {
			ex.prove(fname, st, "makeslice", ex.srcLabel(i.Pos()), And(Ge(ln, IntLit(0)), Le(ln, cp)), "make: 0 <= len <= cap", i.Pos())
		}
		ex.assumePath(st.pc, And(Ge(ln, IntLit(0)), Le(ln, cp)))
		et := i.Type().Underlying().(*types.Slice).Elem()
		r := ex.allocRef(st)
		for j, k := range elemKeys(et) {
			c := layout(et)[j]
			s := ArraySort(IntSort, ArraySort(IntSort, c.Sort))
			st.heap.m[k] = Store(st.heap.Get(k, s), r, ConstArray(ArraySort(IntSort, c.Sort), zeroComp(c)))
		}
		fr.regs[i] = Value{T: i.Type(), C: []*Term{r, IntLit(0), ln, cp}}
	case *ssa.MakeMap:
		mt := i.Type().Underlying().(*types.Map)
		r := ex.allocRef(st)
		if ks := mapKeySort(mt); ks != nil {
			d, l, _ := mapKeys(mt)
			ds := ArraySort(IntSort, ArraySort(ks, BoolSort))
			st.heap.m[d] = Store(st.heap.Get(d, ds), r, ConstArray(ArraySort(ks, BoolSort), False))
			ls := ArraySort(IntSort, IntSort)
			st.heap.m[l] = Store(st.heap.Get(l, ls), r, IntLit(0))
		}
		fr.regs[i] = Value{T: i.Type(), C: []*Term{r}}
	case *ssa.MapUpdate:
		ex.mapUpdate(fr, st, i, fname)
	case *ssa.Lookup:
		ex.lookup(fr, st, i, fname)
	case *ssa.Range:
		x := ex.val(fr, st, i.X)
		fr.regs[i] = Value{T: i.X.Type(), C: x.C}
		if mt, ok := i.X.Type().Underlying().(*types.Map); ok && mapKeySort(mt) != nil {
			k, srt := visitedKey(i)
			st.heap.m[k] = ConstArray(srt, False)
			// the key set of the map when the iteration starts
			dk, _, _ := mapKeys(mt)
			st.heap.m[regKey("VD"+k[2:], srt)] = Select(st.heap.Get(dk, ArraySort(IntSort, srt)), x.one())
		}
	case *ssa.Next:
		ex.next(fr, st, i, fname)
	case *ssa.Extract:
		tup := ex.val(fr, st, i.Tuple)
		tt := i.Tuple.Type().(*types.Tuple)
		off := tupleOffset(tt, i.Index)
		n := len(layout(tt.At(i.Index).Type()))
		if off+n > len(tup.C) {
			fr.regs[i] = freshValue("extract", i.Type())
			return
		}
		fr.regs[i] = Value{T: i.Type(), C: tup.C[off : off+n]}
	case *ssa.MakeInterface:
		x := ex.val(fr, st, i.X)
		xt := i.X.Type()
		if _, isPtr := xt.Underlying().(*types.Pointer); isPtr {
			var r *Term
			if x.Loc != nil {
				ex.warn("address of a local or field converted to an interface in %s: treated as a fresh reference", fname)
				r = ex.allocRef(st)
			} else {
				r = x.one()
			}
			ex.assume(st.pc, Or(Eq(r, IntLit(0)), Eq(dyntype(r), ex.tagOf(xt))))
			fr.regs[i] = Value{T: i.Type(), C: []*Term{r}}
			return
		}
		if _, isIface := xt.Underlying().(*types.Interface); isIface {
			fr.regs[i] = Value{T: i.Type(), C: x.C}
			return
		}
		switch xt.Underlying().(type) {
		case *types.Signature, *types.Map, *types.Chan:
			r := ex.allocRef(st)
			ex.assume(st.pc, Eq(dyntype(r), ex.tagOf(xt)))
			fr.regs[i] = Value{T: i.Type(), C: []*Term{r}}
			return
		}
		// boxed value
		r := ex.allocRef(st)
		ex.assume(st.pc, Eq(dyntype(r), ex.tagOf(xt)))
		if len(x.C) == len(layout(xt)) {
			ex.writeLoc(st, &Loc{Kind: LRef, Ref: r, Keys: refKeys(xt), T: xt}, x)
		}
		fr.regs[i] = Value{T: i.Type(), C: []*Term{r}}
	case *ssa.ChangeInterface:
		x := ex.val(fr, st, i.X)
		fr.regs[i] = Value{T: i.Type(), C: x.C}
	case *ssa.ChangeType:
		x := ex.val(fr, st, i.X)
		x.T = i.Type()
		fr.regs[i] = x
	case *ssa.Convert:
		ex.convert(fr, st, i, fname)
	case *ssa.TypeAssert:
		ex.typeAssert(fr, st, i, fname)
	case *ssa.MakeClosure:
		var bs []Value
		for _, b := range i.Bindings {
			bs = append(bs, ex.val(fr, st, b))
		}
		r := ex.allocRef(st)
		fr.regs[i] = Value{T: i.Type(), C: []*Term{r}, Clo: &Closure{Fn: i.Fn.(*ssa.Function), Bindings: bs}}
	case *ssa.Call:
		res := ex.call(fr, st, &i.Call, i, fname)
		if i.Type() != nil {
			res.T = i.Type()
			fr.regs[i] = res
		}
	case *ssa.Defer:
		d := deferred{pc: st.pc, call: &i.Call, in: i}
		for _, a := range i.Call.Args {
			d.args = append(d.args, ex.val(fr, st, a))
		}
		d.fnv = ex.val(fr, st, i.Call.Value)
		if fr.curLoopContains(ex, i.Block()) {
			ex.warn("defer inside a loop in %s: effects abstracted", fname)
		}
		fr.defers = append(fr.defers, d)
	case *ssa.RunDefers:
		ex.runDefers(fr, st, fname)
	case *ssa.Go:
		ex.unsupported(fr, st, i, "go statement")
	case *ssa.Send:
		ex.unsupported(fr, st, i, "channel send")
	case *ssa.Select:
		ex.unsupported(fr, st, i, "select")
		fr.regs[i] = freshValue("select", i.Type())
	case *ssa.MakeChan:
		r := ex.allocRef(st)
		fr.regs[i] = Value{T: i.Type(), C: []*Term{r}}
	default:
		ex.unsupported(fr, st, in, fmt.Sprintf("%T", in))
		if v, ok := in.(ssa.Value); ok {
			fr.regs[v] = freshValue("unsupported", v.Type())
		}
	}
}

func (fr *Frame) curLoopContains(ex *Exec, b *ssa.BasicBlock) bool {
	ci := ex.eng.cfg(fr.fn)
	for _, li := range ci.loops {
		for _, lb := range li.blocks {
			if lb == b {
				return true
			}
		}
	}
	return false
}

func (ex *Exec) unsupported(fr *Frame, st *State, in ssa.Instruction, what string) {
	ex.warn("unsupported construct in %s: %s; whole heap havocked", shortName(fr.fn.String()), what)
	ws := newWriteSet()
	ws.setAll(what)
	ex.havoc(st, ws, "unsupported", fr)
}

func (ex *Exec) srcLabel(pos token.Pos) string {
	if !pos.IsValid() {
		return "?"
	}
	return ex.eng.sourceSnippet(pos)
}

func (ex *Exec) nilCheck(fr *Frame, st *State, p Value, fname string, pos token.Pos) {
	if p.Loc != nil || !ex.safetyOn(fr) {
		return
	}
	ex.prove(fname, st, "nil", ex.srcLabel(pos), Not(Eq(p.one(), IntLit(0))), "pointer dereference: non-nil", pos)
}

func (ex *Exec) boundsCheck(fr *Frame, st *State, idx, ln *Term, fname string, pos token.Pos, what string) {
	g := And(Ge(idx, IntLit(0)), Lt(idx, ln))
	if ex.safetyOn(fr) {
		ex.prove(fname, st, "bounds", ex.srcLabel(pos), g, what+" in range", pos)
	}
	// execution continues only when the access does not panic
	ex.assumePath(st.pc, g)
}

func mapKeySort(mt *types.Map) *Sort {
	l := layout(mt.Key())
	if len(l) != 1 {
		return nil
	}
	return l[0].Sort
}

func (ex *Exec) mapUpdate(fr *Frame, st *State, i *ssa.MapUpdate, fname string) {
	mt := i.Map.Type().Underlying().(*types.Map)
	m := ex.val(fr, st, i.Map).one()
	ks := mapKeySort(mt)
	if ks == nil {
		ex.warn("map with composite key %s in %s: contents not modelled", typeStr(mt.Key()), fname)
		return
	}
	k := ex.val(fr, st, i.Key).one()
	v := ex.val(fr, st, i.Value)
	if ex.safetyOn(fr) {
		ex.prove(fname, st, "mapwrite", ex.srcLabel(i.Pos()), Not(Eq(m, IntLit(0))), "assignment to entry in nil map", i.Pos())
	}
	d, l, vs := mapKeys(mt)
	ex.ownWriteCheck(fr, st, &Loc{Kind: LRef, Ref: m, Keys: []string{d}, T: types.Typ[types.Bool]}, fname, i.Pos())
	if ex.topC != nil && ex.inSpec == 0 {
		for gi, g := range ex.topC.MapKeys {
			if !strings.HasPrefix(d, g.Prefix) {
				continue
			}
			var top *Frame
			for f := fr; f != nil; f = f.parent {
				top = f
			}
			env := ex.frameEnv(top, st, top.entry).with("$key", Value{T: mt.Key(), C: []*Term{k}})
			cond, err := env.boolExpr(g.Cond.E, true)
			if err != nil {
				ex.bindingError(shortName(ex.topFn.String()), "mapkeys", fmt.Sprint(gi+1), g.Cond, err)
				continue
			}
			ex.prove(shortName(ex.topFn.String()), st, "mapkeys", g.Prefix+":"+ex.srcLabel(i.Pos()), cond, "key stored into "+d+" needs: "+g.Cond.Text, i.Pos())
		}
	}
	ds := ArraySort(IntSort, ArraySort(ks, BoolSort))
	dom := st.heap.Get(d, ds)
	present := Select(Select(dom, m), k)
	st.heap.m[d] = Store(dom, m, Store(Select(dom, m), k, True))
	ls := ArraySort(IntSort, IntSort)
	la := st.heap.Get(l, ls)
	st.heap.m[l] = Store(la, m, Add(Select(la, m), Ite(present, IntLit(0), IntLit(1))))
	el := layout(mt.Elem())
	if len(v.C) != len(el) {
		return
	}
	for j, key := range vs {
		s := ArraySort(IntSort, ArraySort(ks, el[j].Sort))
		a := st.heap.Get(key, s)
		st.heap.m[key] = Store(a, m, Store(Select(a, m), k, v.C[j]))
	}
}

func (ex *Exec) mapRead(st *State, mt *types.Map, m, k *Term) (present *Term, val Value) {
	ks := mapKeySort(mt)
	d, _, vs := mapKeys(mt)
	ds := ArraySort(IntSort, ArraySort(ks, BoolSort))
	present = And(Not(Eq(m, IntLit(0))), Select(Select(st.heap.Get(d, ds), m), k))
	el := layout(mt.Elem())
	val = Value{T: mt.Elem(), C: make([]*Term, len(el))}
	for j, key := range vs {
		s := ArraySort(IntSort, ArraySort(ks, el[j].Sort))
		val.C[j] = Ite(present, Select(Select(st.heap.Get(key, s), m), k), zeroComp(el[j]))
	}
	return
}

func (ex *Exec) lookup(fr *Frame, st *State, i *ssa.Lookup, fname string) {
	x := ex.val(fr, st, i.X)
	idx := ex.val(fr, st, i.Index)
	switch xt := i.X.Type().Underlying().(type) {
	case *types.Map:
		if mapKeySort(xt) == nil {
			fr.regs[i] = freshValue("lookup", i.Type())
			return
		}
		present, v := ex.mapRead(st, xt, x.one(), idx.one())
		ex.assumeTyped(st, v)
		if i.CommaOk {
			fr.regs[i] = Value{T: i.Type(), C: append(append([]*Term{}, v.C...), present)}
		} else {
			fr.regs[i] = v
		}
	case *types.Basic:
		ex.boundsCheck(fr, st, idx.one(), UF("str_len", IntSort, x.one()), fname, i.Pos(), "index")
		fr.regs[i] = Value{T: i.Type(), C: []*Term{UF("str_at", IntSort, x.one(), idx.one())}}
		ex.assumeTyped(st, fr.regs[i])
	default:
		fr.regs[i] = freshValue("lookup", i.Type())
	}
}

func (ex *Exec) next(fr *Frame, st *State, i *ssa.Next, fname string) {
	tt := i.Type().(*types.Tuple)
	ok := Fresh("next.ok", BoolSort)
	if i.IsString {
		k := Fresh("next.idx", IntSort)
		r := Fresh("next.rune", IntSort)
		ex.assume(st.pc, And(Ge(k, IntLit(0)), Ge(r, IntLit(0)), Le(r, IntLit(0x10FFFF))))
		fr.regs[i] = Value{T: tt, C: []*Term{ok, k, r}}
		return
	}
	rng := i.Iter.(*ssa.Range)
	mt, isMap := rng.X.Type().Underlying().(*types.Map)
	if !isMap || mapKeySort(mt) == nil {
		fr.regs[i] = freshValue("next", tt)
		return
	}
	m := ex.val(fr, st, rng).one()
	kv := freshValue("next.key", mt.Key())
	ex.assumeTyped(st, kv)
	present, v := ex.mapRead(st, mt, m, kv.one())
	ex.assume(And(st.pc, ok), present)
	ex.assumeTyped(st, v)
	{
		// language fact: a range over a map produces every entry at most once, and stops only when every entry that is
		// (still) in the map has been produced (entries added during the iteration may be skipped: then nothing is assumed)
		vk, vsrt := visitedKey(rng)
		vis := st.heap.Get(vk, vsrt)
		if mode := fr.mapLoopMode[rng]; mode != 0 {
			// (an entry that is deleted and created again during the iteration may be produced twice: with both kinds of
			// update in the body nothing is assumed)
			ex.assume(And(st.pc, ok), Not(Select(vis, kv.one())))
			q := BoundVar("vk", mapKeySort(mt))
			pq, _ := ex.mapRead(st, mt, m, q)
			dk, _, _ := mapKeys(mt)
			dnow := Select(st.heap.Get(dk, ArraySort(IntSort, vsrt)), m)
			all := Forall([]*Term{q}, Implies(pq, Select(vis, q)), [][]*Term{{Select(vis, q)}, {Select(dnow, q)}})
			if mode == 2 {
				all = Implies(Eq(dnow, st.heap.Get("VD"+vk[2:], vsrt)), all)
			}
			ex.assume(And(st.pc, Not(ok)), all)
		}
		st.heap.m[vk] = Ite(ok, Store(vis, kv.one(), True), vis)
	}
	cs := []*Term{ok}
	// tuple type is (ok bool, k K, v V) but k/v may be typed invalid when unused
	if len(layout(tt.At(1).Type())) == 1 {
		cs = append(cs, kv.C...)
	} else {
		cs = append(cs, freshValue("next.k", tt.At(1).Type()).C...)
	}
	if len(layout(tt.At(2).Type())) == len(v.C) {
		cs = append(cs, v.C...)
	} else {
		cs = append(cs, freshValue("next.v", tt.At(2).Type()).C...)
	}
	fr.regs[i] = Value{T: tt, C: cs}
}

func (ex *Exec) sliceOp(fr *Frame, st *State, i *ssa.Slice, fname string) {
	x := ex.val(fr, st, i.X)
	get := func(v ssa.Value, def *Term) *Term {
		if v == nil {
			return def
		}
		return ex.val(fr, st, v).one()
	}
	zero := IntLit(0)
	switch xt := i.X.Type().Underlying().(type) {
	case *types.Slice:
		lo := get(i.Low, zero)
		hi := get(i.High, x.C[2])
		mx := get(i.Max, x.C[3])
		g := And(Le(zero, lo), Le(lo, hi), Le(hi, mx), Le(mx, x.C[3]))
		if ex.safetyOn(fr) {
			ex.prove(fname, st, "slice", ex.srcLabel(i.Pos()), g, "slice bounds in range", i.Pos())
		}
		ex.assumePath(st.pc, g)
		fr.regs[i] = Value{T: i.Type(), C: []*Term{x.C[0], Add(x.C[1], lo), Sub(hi, lo), Sub(mx, lo)}}
	case *types.Basic:
		ln := UF("str_len", IntSort, x.one())
		lo := get(i.Low, zero)
		hi := get(i.High, ln)
		g := And(Le(zero, lo), Le(lo, hi), Le(hi, ln))
		if ex.safetyOn(fr) {
			ex.prove(fname, st, "slice", ex.srcLabel(i.Pos()), g, "string slice bounds in range", i.Pos())
		}
		ex.assumePath(st.pc, g)
		r := UF("str_sub", StrSort, x.one(), lo, hi)
		ex.assume(st.pc, Eq(UF("str_len", IntSort, r), Sub(hi, lo)))
		fr.regs[i] = Value{T: i.Type(), C: []*Term{r}}
	case *types.Pointer:
		arr := xt.Elem().Underlying().(*types.Array)
		var ref *Term
		if x.Loc != nil {
			ref = ex.readLoc(st, x.Loc).one()
		} else {
			ref = x.one()
		}
		n := IntLit(arr.Len())
		lo := get(i.Low, zero)
		hi := get(i.High, n)
		mx := get(i.Max, n)
		g := And(Le(zero, lo), Le(lo, hi), Le(hi, mx), Le(mx, n))
		if ex.safetyOn(fr) {
			ex.prove(fname, st, "slice", ex.srcLabel(i.Pos()), g, "slice bounds in range", i.Pos())
		}
		ex.assumePath(st.pc, g)
		fr.regs[i] = Value{T: i.Type(), C: []*Term{ref, lo, Sub(hi, lo), Sub(mx, lo)}}
	default:
		ex.unsupported(fr, st, i, "slice of "+typeStr(i.X.Type()))
		fr.regs[i] = freshValue("slice", i.Type())
	}
}

func isFloat(t types.Type) bool {
	b, ok := t.Underlying().(*types.Basic)
	return ok && b.Info()&types.IsFloat != 0
}
func isInteger(t types.Type) bool {
	b, ok := t.Underlying().(*types.Basic)
	return ok && b.Info()&types.IsInteger != 0
}
func isString(t types.Type) bool {
	b, ok := t.Underlying().(*types.Basic)
	return ok && b.Info()&types.IsString != 0
}
func isBool(t types.Type) bool {
	b, ok := t.Underlying().(*types.Basic)
	return ok && b.Info()&types.IsBoolean != 0
}

func (ex *Exec) unop(fr *Frame, st *State, i *ssa.UnOp, fname string) {
	x := ex.val(fr, st, i.X)
	switch i.Op {
	case token.MUL: // load
		loc := ex.derefLoc(st, x)
		ex.nilCheck(fr, st, x, fname, i.Pos())
		ex.ownReadCheck(fr, st, loc, fname, i.Pos())
		v := ex.readLoc(st, loc)
		v.T = i.Type()
		ex.assumeTyped(st, v)
		fr.regs[i] = v
	case token.NOT:
		fr.regs[i] = Value{T: i.Type(), C: []*Term{Not(x.one())}}
	case token.SUB:
		if isFloat(i.Type()) {
			fr.regs[i] = Value{T: i.Type(), C: []*Term{mk("fp.neg", F64Sort, x.one())}}
		} else {
			fr.regs[i] = Value{T: i.Type(), C: []*Term{wrapInt(Neg(x.one()), i.Type(), true)}}
		}
	case token.XOR:
		fr.regs[i] = Value{T: i.Type(), C: []*Term{UF("bits.not", IntSort, x.one())}}
		ex.assumeTyped(st, fr.regs[i])
	case token.ARROW:
		ex.unsupported(fr, st, i, "channel receive")
		fr.regs[i] = freshValue("recv", i.Type())
	default:
		ex.unsupported(fr, st, i, "unary "+i.Op.String())
		fr.regs[i] = freshValue("unop", i.Type())
	}
}

func valuesEqual(a, b Value) *Term {
	if len(a.C) != len(b.C) {
		return False
	}
	var cs []*Term
	for j := range a.C {
		if a.C[j].Sort == F64Sort {
			cs = append(cs, mk("fp.eq", BoolSort, a.C[j], b.C[j]))
		} else {
			cs = append(cs, Eq(a.C[j], b.C[j]))
		}
	}
	return And(cs...)
}

func (ex *Exec) binop(fr *Frame, st *State, i *ssa.BinOp, fname string) {
	x := ex.val(fr, st, i.X)
	y := ex.val(fr, st, i.Y)
	t := i.X.Type()
	set := func(tm *Term) { fr.regs[i] = Value{T: i.Type(), C: []*Term{tm}} }
	if i.Op == token.EQL || i.Op == token.NEQ {
		var eq *Term
		if _, isSlice := t.Underlying().(*types.Slice); isSlice {
			// a slice can only be compared with nil: nil-ness is the data pointer
			other := x
			if c, ok := i.X.(*ssa.Const); ok && c.Value == nil {
				other = y
			}
			eq = Eq(other.C[0], IntLit(0))
		} else {
			eq = valuesEqual(x, y)
		}
		if i.Op == token.NEQ {
			eq = Not(eq)
		}
		set(eq)
		return
	}
	switch {
	case isInteger(t):
		a, b := x.one(), y.one()
		switch i.Op {
		case token.ADD:
			set(wrapInt(Add(a, b), i.Type(), true))
		case token.SUB:
			set(wrapInt(Sub(a, b), i.Type(), true))
		case token.MUL:
			set(wrapInt(Mul(a, b), i.Type(), false))
		case token.QUO:
			if ex.safetyOn(fr) {
				ex.prove(fname, st, "div", ex.srcLabel(i.Pos()), Not(Eq(b, IntLit(0))), "integer division by zero", i.Pos())
			}
			ex.assumePath(st.pc, Not(Eq(b, IntLit(0))))
			set(wrapInt(TDiv(a, b), i.Type(), true))
		case token.REM:
			if ex.safetyOn(fr) {
				ex.prove(fname, st, "div", ex.srcLabel(i.Pos()), Not(Eq(b, IntLit(0))), "integer division by zero", i.Pos())
			}
			ex.assumePath(st.pc, Not(Eq(b, IntLit(0))))
			set(TMod(a, b))
		case token.LSS:
			set(Lt(a, b))
		case token.LEQ:
			set(Le(a, b))
		case token.GTR:
			set(Gt(a, b))
		case token.GEQ:
			set(Ge(a, b))
		case token.SHL:
			// x << k for constant k: multiplication by 2^k with wrap
			if b.Op == "int" && b.Int.IsInt64() && b.Int.Int64() >= 0 && b.Int.Int64() < 63 {
				set(wrapInt(Mul(a, BigLit(constant2big(constant.Shift(constant.MakeInt64(1), token.SHL, uint(b.Int.Int64()))))), i.Type(), false))
			} else {
				set(UF("bits.shl", IntSort, a, b))
				ex.assumeTyped(st, fr.regs[i])
			}
		case token.SHR, token.AND, token.OR, token.XOR, token.AND_NOT:
			set(UF("bits."+i.Op.String(), IntSort, a, b))
			ex.assumeTyped(st, fr.regs[i])
		default:
			ex.unsupported(fr, st, i, "int op "+i.Op.String())
			fr.regs[i] = freshValue("binop", i.Type())
		}
	case isFloat(t):
		a, b := x.one(), y.one()
		switch i.Op {
		case token.ADD:
			set(F64Arith("add", a, b))
		case token.SUB:
			set(F64Arith("sub", a, b))
		case token.MUL:
			set(F64Arith("mul", a, b))
		case token.QUO:
			set(F64Arith("div", a, b))
		case token.LSS:
			set(mk("fp.lt", BoolSort, a, b))
		case token.LEQ:
			set(mk("fp.leq", BoolSort, a, b))
		case token.GTR:
			set(mk("fp.gt", BoolSort, a, b))
		case token.GEQ:
			set(mk("fp.geq", BoolSort, a, b))
		default:
			fr.regs[i] = freshValue("binop", i.Type())
		}
	case isString(t):
		a, b := x.one(), y.one()
		switch i.Op {
		case token.ADD:
			r := UF("str_cat", StrSort, a, b)
			ex.assume(st.pc, Eq(UF("str_len", IntSort, r), Add(UF("str_len", IntSort, a), UF("str_len", IntSort, b))))
			set(r)
		case token.LSS:
			set(UF("str_lt", BoolSort, a, b))
		case token.GTR:
			set(UF("str_lt", BoolSort, b, a))
		case token.LEQ:
			set(Not(UF("str_lt", BoolSort, b, a)))
		case token.GEQ:
			set(Not(UF("str_lt", BoolSort, a, b)))
		default:
			fr.regs[i] = freshValue("binop", i.Type())
		}
	case isBool(t):
		a, b := x.one(), y.one()
		switch i.Op {
		case token.AND, token.LAND:
			set(And(a, b))
		case token.OR, token.LOR:
			set(Or(a, b))
		default:
			fr.regs[i] = freshValue("binop", i.Type())
		}
	default:
		fr.regs[i] = freshValue("binop", i.Type())
	}
}

func (ex *Exec) convert(fr *Frame, st *State, i *ssa.Convert, fname string) {
	x := ex.val(fr, st, i.X)
	from, to := i.X.Type(), i.Type()
	set := func(tm *Term) { fr.regs[i] = Value{T: to, C: []*Term{tm}} }
	switch {
	case isInteger(from) && isInteger(to):
		lo, hi, _ := intRange(to)
		flo, fhi, _ := intRange(from)
		if flo.Cmp(lo) >= 0 && fhi.Cmp(hi) <= 0 {
			set(x.one())
		} else {
			set(wrapInt(x.one(), to, false))
		}
	case isInteger(from) && isFloat(to):
		set(UF("conv.i2f", F64Sort, x.one()))
	case isFloat(from) && isInteger(to):
		set(UF("conv.f2i."+typeStr(to), IntSort, x.one()))
		ex.assumeTyped(st, fr.regs[i])
	case isFloat(from) && isFloat(to):
		set(x.one())
	case isString(to) && isInteger(from):
		set(UF("conv.rune2str", StrSort, x.one()))
	case isString(to) && isString(from):
		set(x.one())
	case isString(to):
		// []byte / []rune -> string
		r := Fresh("conv.tostr", StrSort)
		if len(x.C) == 4 {
			if sl, ok := from.Underlying().(*types.Slice); ok && typeStr(sl.Elem()) == "byte" || typeStr(from.Underlying().(*types.Slice).Elem()) == "uint8" {
				ex.assume(st.pc, Eq(UF("str_len", IntSort, r), x.C[2]))
			}
		}
		set(r)
	case isString(from):
		// string -> []byte / []rune
		et := to.Underlying().(*types.Slice).Elem()
		base := ex.allocRef(st)
		ln := Fresh("conv.len", IntSort)
		if typeStr(et) == "byte" || typeStr(et) == "uint8" {
			ex.assume(st.pc, Eq(ln, UF("str_len", IntSort, x.one())))
		} else {
			ex.assume(st.pc, And(Ge(ln, IntLit(0)), Le(ln, UF("str_len", IntSort, x.one()))))
		}
		fr.regs[i] = Value{T: to, C: []*Term{base, IntLit(0), ln, ln}}
		// element contents: arbitrary but typed (fresh array)
		for j, k := range elemKeys(et) {
			c := layout(et)[j]
			s := ArraySort(IntSort, ArraySort(IntSort, c.Sort))
			ea := Fresh("conv.elems", ArraySort(IntSort, c.Sort))
			st.heap.m[k] = Store(st.heap.Get(k, s), base, ea)
			if c.Sort == IntSort && (typeStr(et) == "rune" || typeStr(et) == "int32") {
				// the language: converting a string to []rune yields Unicode code points (invalid UTF-8 becomes U+FFFD)
				q := BoundVar("q", IntSort)
				ex.assume(st.pc, Forall([]*Term{q}, And(Ge(Select(ea, q), IntLit(0)), Le(Select(ea, q), IntLit(1114111))), [][]*Term{{Select(ea, q)}}))
			}
		}
	default:
		if len(layout(from)) == len(layout(to)) {
			x.T = to
			fr.regs[i] = x
		} else {
			fr.regs[i] = freshValue("convert", to)
		}
	}
}

func (ex *Exec) typeAssert(fr *Frame, st *State, i *ssa.TypeAssert, fname string) {
	x := ex.val(fr, st, i.X)
	ref := x.one()
	at := i.AssertedType
	var ok *Term
	var res Value
	if _, isIface := at.Underlying().(*types.Interface); isIface {
		ok = And(Not(Eq(ref, IntLit(0))), ex.eng.implementsTerm(ref, at))
		res = Value{T: at, C: []*Term{Ite(ok, ref, IntLit(0))}}
	} else {
		ok = And(Not(Eq(ref, IntLit(0))), Eq(dyntype(ref), ex.tagOf(at)))
		switch at.Underlying().(type) {
		case *types.Pointer, *types.Signature, *types.Map, *types.Chan:
			res = Value{T: at, C: []*Term{Ite(ok, ref, IntLit(0))}}
		default:
			boxed := ex.readLoc(st, &Loc{Kind: LRef, Ref: ref, Keys: refKeys(at), T: at})
			z := zeroValue(at)
			res = Value{T: at, C: make([]*Term, len(boxed.C))}
			for j := range boxed.C {
				res.C[j] = Ite(ok, boxed.C[j], z.C[j])
			}
			ex.assumeTyped(st, res)
		}
	}
	if i.CommaOk {
		fr.regs[i] = Value{T: i.Type(), C: append(append([]*Term{}, res.C...), ok)}
		return
	}
	if ex.safetyOn(fr) {
		ex.prove(fname, st, "typeassert", ex.srcLabel(i.Pos()), ok, "type assertion holds", i.Pos())
	}
	ex.assumePath(st.pc, ok)
	fr.regs[i] = res
}

func (ex *Exec) runDefers(fr *Frame, st *State, fname string) {
	for k := len(fr.defers) - 1; k >= 0; k-- {
		d := fr.defers[k]
		guard := And(st.pc, d.pc)
		if guard == False {
			continue
		}
		if d.pc == True || Implies(st.pc, d.pc) == True {
			ex.callWith(fr, st, d.call, d.fnv, d.args, d.in, fname)
			continue
		}
		// conditional defer: run on a copy and merge
		run := st.clone()
		run.pc = guard
		ex.callWith(fr, run, d.call, d.fnv, d.args, d.in, fname)
		skip := st.clone()
		skip.pc = And(st.pc, Not(d.pc))
		m := mergeStates([]*State{run, skip})
		*st = *m
	}
}

// isMapRangeLoop: the loop head advances a map/string iterator (ssa.Next): finitely many iterations by construction.
func isMapRangeLoop(li *loopInfo) bool {
	for _, in := range li.head.Instrs {
		if n, ok := in.(*ssa.Next); ok {
			_ = n
			return true
		}
	}
	return false
}

// deterministic iteration orders (Go map order would make the text of an obligation differ from run to run)
func sortedKeyList(m map[string]bool) []string {
	out := make([]string, 0, len(m))
	for k := range m {
		out = append(out, k)
	}
	sort.Strings(out)
	return out
}

func sortedAllocs(m map[*ssa.Alloc]bool) []*ssa.Alloc {
	out := make([]*ssa.Alloc, 0, len(m))
	for a := range m {
		out = append(out, a)
	}
	sort.Slice(out, func(i, j int) bool {
		if out[i].Pos() != out[j].Pos() {
			return out[i].Pos() < out[j].Pos()
		}
		if out[i].Comment != out[j].Comment {
			return out[i].Comment < out[j].Comment
		}
		return out[i].Name() < out[j].Name()
	})
	return out
}

var privateCellMemo = map[*ssa.Alloc]bool{}

// privateCell: a heap-allocated local whose address is used only by loads, stores and function literals that are
// called directly or deferred (never stored, passed as an argument, returned or started with go).
func privateCell(a *ssa.Alloc) bool { return privateCellAt(a, nil) }

// privateCellAt: pending(mc) tells that the function literal mc has not been created yet on the way to the program point at
// hand (so it cannot have escaped yet); results that depend on it are not memoised.
func privateCellAt(a *ssa.Alloc, pending func(*ssa.MakeClosure) bool) bool {
	if pending == nil {
		if v, ok := privateCellMemo[a]; ok {
			return v
		}
	}
	res := true
	if _, isArr := derefType(a.Type()).Underlying().(*types.Array); isArr {
		res = false
	}
	if a.Referrers() == nil {
		res = false
	}
	if res {
	outer:
		for _, r := range *a.Referrers() {
			switch i := r.(type) {
			case *ssa.Store:
				if i.Addr != ssa.Value(a) {
					res = false
					break outer
				}
			case *ssa.UnOp:
				if i.Op.String() != "*" {
					res = false
					break outer
				}
			case *ssa.DebugRef:
			case *ssa.MakeClosure:
				if pending != nil && pending(i) {
					continue
				}
				if i.Referrers() == nil {
					res = false
					break outer
				}
				for _, u := range *i.Referrers() {
					switch c := u.(type) {
					case *ssa.Call:
						if c.Call.Value != ssa.Value(i) {
							res = false
							break outer
						}
					case *ssa.Defer:
						if c.Call.Value != ssa.Value(i) {
							res = false
							break outer
						}
					case *ssa.DebugRef:
					case *ssa.Store:
						// the literal is kept in a local variable that is only ever called
						if c.Val != ssa.Value(i) || !calledOnlyLocal(c.Addr) {
							res = false
							break outer
						}
					default:
						res = false
						break outer
					}
				}
			default:
				res = false
				break outer
			}
		}
	}
	if pending == nil {
		privateCellMemo[a] = res
	}
	return res
}

// calledOnlyLocal: addr is a local variable (not captured, address not taken) whose value is only ever called.
func calledOnlyLocal(addr ssa.Value) bool {
	a, ok := addr.(*ssa.Alloc)
	if !ok || a.Heap || a.Referrers() == nil {
		return false
	}
	for _, r := range *a.Referrers() {
		switch i := r.(type) {
		case *ssa.Store:
			if i.Addr != ssa.Value(a) {
				return false
			}
		case *ssa.DebugRef:
		case *ssa.UnOp:
			if i.Op.String() != "*" || i.Referrers() == nil {
				return false
			}
			for _, u := range *i.Referrers() {
				switch c := u.(type) {
				case *ssa.Call:
					if c.Call.Value != ssa.Value(i) {
						return false
					}
				case *ssa.Defer:
					if c.Call.Value != ssa.Value(i) {
						return false
					}
				case *ssa.DebugRef:
				default:
					return false
				}
			}
		default:
			return false
		}
	}
	return true
}

var closureAssignsMemo = map[*ssa.Alloc]bool{}

// closureAssigns: some function literal that captures the variable stores into it.
func closureAssigns(a *ssa.Alloc) bool {
	if v, ok := closureAssignsMemo[a]; ok {
		return v
	}
	res := false
	if a.Referrers() != nil {
		for _, r := range *a.Referrers() {
			mc, ok := r.(*ssa.MakeClosure)
			if !ok {
				continue
			}
			cf, ok := mc.Fn.(*ssa.Function)
			if !ok {
				res = true
				continue
			}
			for bi, b := range mc.Bindings {
				if b != ssa.Value(a) || bi >= len(cf.FreeVars) || cf.FreeVars[bi].Referrers() == nil {
					continue
				}
				for _, u := range *cf.FreeVars[bi].Referrers() {
					switch x := u.(type) {
					case *ssa.UnOp, *ssa.DebugRef:
					case *ssa.Store:
						if x.Addr == ssa.Value(cf.FreeVars[bi]) {
							res = true
						}
					default:
						// handed on (captured again by a nested literal, address taken): treated as assigned
						res = true
					}
				}
			}
		}
	}
	closureAssignsMemo[a] = res
	return res
}

func storedInBlocks(a *ssa.Alloc, blocks []*ssa.BasicBlock) bool {
	for _, b := range blocks {
		for _, in := range b.Instrs {
			if s, ok := in.(*ssa.Store); ok && s.Addr == ssa.Value(a) {
				return true
			}
		}
	}
	return false
}
