package main

// Top-level verification of one function against its contract; lemma obligations; SMT scripts.

import (
	"fmt"
	"go/token"
	"go/types"
	"sort"
	"strings"

	"golang.org/x/tools/go/ssa"
)

type FuncReport struct {
	Key         string
	File        string
	Obligations []*Obligation
	Warnings    []string
	Abstracted  []string
	Inlined     []string
	UsedContr   []string
	AssumedTerm []string
	Trusted     bool
	ReachPC     *Term // path condition of normal return
	NAssumeEnd  int
	exec        *Exec
	Err         string
}

func sortedKeys(m map[string]bool) []string {
	var out []string
	for k := range m {
		out = append(out, k)
	}
	sort.Strings(out)
	return out
}

func (eng *Engine) verifyFunc(key string) *FuncReport {
	resetNaming()
	rep := &FuncReport{Key: key}
	c := eng.contracts.Funcs[key]
	fnKey := key
	if i := strings.Index(fnKey, "!"); i >= 0 {
		fnKey = fnKey[:i]
	}
	fn := eng.funcByKey[fnKey]
	if c == nil {
		rep.Err = "no contract for " + key
		return rep
	}
	if fn == nil {
		rep.Err = "BINDING-LOST: function " + key + " not found in /repo"
		return rep
	}
	if p := eng.fset.Position(fn.Pos()); p.IsValid() {
		rep.File = strings.TrimPrefix(p.Filename, eng.repo+"/")
	}
	if c.Trusted {
		rep.Trusted = true
		return rep
	}
	if fn.Blocks == nil {
		rep.Err = "function " + key + " has no body"
		return rep
	}
	ex := newExec(eng, fn, c)
	rep.exec = ex
	ex.safety = c.Safety
	ex.reveal = c.Reveal
	ex.budget = 6000 // instructions that may be executed in inlined callees; beyond it callees are abstracted
	wm0 := Const("wm0", IntSort)
	st := &State{pc: True, locals: map[*ssa.Alloc][]*Term{}, heap: newHeap(wm0), wm: wm0}
	ex.assume(True, Ge(wm0, IntLit(0)))
	fr := &Frame{fn: fn, regs: map[ssa.Value]Value{}, params: map[*ssa.Parameter]Value{}, freeVars: map[*ssa.FreeVar]Value{}, callOrd: map[string]int{}, top: true, contract: c}
	for _, p := range fn.Params {
		v := freshValue("in."+p.Name(), p.Type())
		ex.assumeTyped(st, v)
		fr.params[p] = v
		fr.args = append(fr.args, v)
	}
	fr.entry = st
	ex.topFrame = fr
	ex.assumeInvariants(st)
	for j, r := range c.Requires {
		g, err := ex.compileBool(fr, st, st, r.E, false)
		if err != nil {
			ex.bindingError(key, "requires", clauseLabel(r, j), r, err)
			continue
		}
		ex.assume(True, g)
	}
	fr.entry = st.clone()
	// ghost assignments of this function's own contract happen on entry
	ex.applyGhostSets(st, c, ex.frameEnv(fr, fr.entry, fr.entry))
	ex.goOwnsScan(key, st)
	ex.writesThroughScan(key, st)
	vals, out := ex.execBody(fr, st)
	fr.results = vals
	rep.ReachPC = out.pc
	for j, e := range c.Ensures {
		label := clauseLabel(e, j)
		g, err := ex.compileBool(fr, out, fr.entry, e.E, true)
		if err != nil {
			ex.bindingError(key, "post", label, e, err)
			continue
		}
		ex.prove(key, out, "post", label, g, e.Text, fn.Pos())
	}
	if c.HasMod {
		ex.frameObligations(fr, out, fr.entry, c.Modifies, key, "frame", "")
	}
	for j, pa := range c.Asserts {
		if !ex.assertHit[j] && pa.Ord >= 0 {
			eng.bindingErrors = append(eng.bindingErrors, fmt.Sprintf("%s: assert after call %s#%d never met that call (%s:%d)", key, pa.Callee, pa.Ord, pa.Clause.File, pa.Clause.Line))
		}
	}
	for j, ps := range c.PointSets {
		if !ex.pointSetHit[j] && ps.Ord >= 0 {
			eng.bindingErrors = append(eng.bindingErrors, fmt.Sprintf("%s: ghostset after call %s#%d never met that call", key, ps.Callee, ps.Ord))
		}
	}
	rep.NAssumeEnd = len(ex.assumes)
	rep.Obligations = ex.obligations
	rep.Warnings = ex.warnings
	rep.Abstracted = sortedKeys(ex.abstracted)
	rep.Inlined = sortedKeys(ex.inlined)
	rep.UsedContr = sortedKeys(ex.usedContr)
	rep.AssumedTerm = sortedKeys(ex.assumedTerm)
	return rep
}

// frameObligations: every heap location allocated before the call and not named by modifies is unchanged.
func (ex *Exec) frameObligations(fr *Frame, out *State, entry *State, mods []ModTarget, key string, kind string, labelPrefix string) {
	allowedAll := false
	var except []string
	allowed := map[string][]*Term{} // key -> refs whose entry may change
	whole := map[string]bool{}
	env := ex.frameEnv(fr, entry, entry)
	for _, mt := range mods {
		switch {
		case mt.Fresh:
		case mt.All && len(mt.Except) > 0:
			except = append(except, mt.Except...)
		case mt.All:
			allowedAll = true
		case mt.Key != "":
			whole[mt.Key] = true
		default:
			ks, ref, err := ex.targetKeys(env, mt)
			if err != nil {
				ex.eng.bindingErrors = append(ex.eng.bindingErrors, fmt.Sprintf("%s: modifies %s: %v", key, mt.Text, err))
				allowedAll = true
				continue
			}
			for _, k := range ks {
				if ref == nil {
					whole[k] = true
				} else {
					allowed[k] = append(allowed[k], ref)
				}
			}
		}
	}
	if fr.contract != nil {
		for _, gs := range fr.contract.GhostSets {
			whole["GH:"+gs.Var] = true
		}
	}
	if allowedAll {
		return
	}
	var keys []string
	if len(except) > 0 {
		// everything may change except the keys with these prefixes: those obey the remaining targets
		for k := range keySortReg {
			for _, p := range except {
				if strings.HasPrefix(k, p) {
					keys = append(keys, k)
					break
				}
			}
		}
	} else {
		if out.heap.base != entry.heap.base {
			ex.prove(key, out, kind, labelPrefix+"whole-heap", False, "the body havocs the whole heap (unmodelled construct or unknown callee) but modifies is not *", fr.fn.Pos())
			return
		}
		for k := range out.heap.m {
			keys = append(keys, k)
		}
	}
	sort.Strings(keys)
	for _, k := range keys {
		if whole[k] || strings.HasPrefix(k, "VS:") || strings.HasPrefix(k, "VD:") {
			// VS: / VD: are specification state of map range loops (visited keys, key set at the start), not program state
			continue
		}
		srt := keySortReg[k]
		after := out.heap.Get(k, srt)
		before := entry.heap.Get(k, srt)
		if after == before {
			continue
		}
		var goal *Term
		if srt.Kind != SArray {
			goal = Eq(after, before)
		} else {
			r := Fresh("sk.frame.ref", srt.Idx)
			var conds []*Term
			if srt.Idx == IntSort {
				conds = append(conds, Gt(r, IntLit(0)), Le(r, entry.wm))
			}
			for _, a := range allowed[k] {
				conds = append(conds, Not(Eq(r, a)))
			}
			goal = Implies(And(conds...), Eq(Select(after, r), Select(before, r)))
		}
		ex.prove(key, out, kind, labelPrefix+k, goal, "only what modifies names may change: "+k, fr.fn.Pos())
	}
}

// targetKeys: heap keys and object reference named by a modifies target (ref nil: the whole key).
func (ex *Exec) targetKeys(env *Env, mt ModTarget) (keys []string, ref *Term, err error) {
	defer func() {
		if r := recover(); r != nil {
			if ce, ok := r.(compileErr); ok {
				err = fmt.Errorf("%s", ce.msg)
				return
			}
			panic(r)
		}
	}()
	e := mt.E
	if mt.Elts {
		x := env.compile(e, 0)
		if mp, ok := x.T.Underlying().(*types.Map); ok {
			d, l, vs := mapKeys(mp)
			return append([]string{d, l}, vs...), x.one(), nil
		}
		sl, ok := x.T.Underlying().(*types.Slice)
		if !ok {
			cfail("%s[*]: not a slice", e)
		}
		return elemKeys(sl.Elem()), x.C[0], nil
	}
	if e.Kind == "ident" {
		if g, ok := ex.eng.contracts.Ghosts[e.Name]; ok {
			return []string{regKey("GH:"+e.Name, ex.eng.ghostSort(g))}, nil, nil
		}
	}
	if e.Kind == "sel" {
		isPkg := e.X.Kind == "ident" && env.findPackage(e.X.Name) != nil && env.vars[e.X.Name].T == nil
		if !isPkg {
			x := env.compile(e.X, 0)
			p, ok := x.T.Underlying().(*types.Pointer)
			if !ok {
				cfail("%s: receiver of a modified field must be a pointer", e)
			}
			sst := p.Elem().Underlying().(*types.Struct)
			idx, emb := findField(sst, e.Name)
			if idx < 0 || emb != nil {
				cfail("%s: no direct field %s", e, e.Name)
			}
			ks := refKeys(p.Elem())
			off := fieldOffset(sst, idx)
			n := len(layout(sst.Field(idx).Type()))
			return ks[off : off+n], x.one(), nil
		}
	}
	x := env.compile(e, 0)
	switch xt := x.T.Underlying().(type) {
	case *types.Pointer:
		return refKeys(xt.Elem()), x.one(), nil
	case *types.Map:
		d, l, vs := mapKeys(xt)
		return append([]string{d, l}, vs...), x.one(), nil
	}
	cfail("modifies %s: unsupported target", e)
	return nil, nil, nil
}

// ---------------------------------------------------------------------------------------------
// axioms and lemmas

func (eng *Engine) compileClosed(ax *Axiom, goal bool) (*Term, error) {
	t, _, err := eng.compileClosedEx(ax, goal)
	return t, err
}

// compileClosedEx also returns the scratch executor, whose assumptions (facts about the results of Go calls made
// inside the statement, e.g. callee postconditions) belong to the lemma's hypotheses.
func (eng *Engine) compileClosedEx(ax *Axiom, goal bool) (*Term, *Exec, error) {
	ex := newExec(eng, nil, nil)
	ex.inSpec = 1
	ex.reveal = map[string]bool{}
	if goal {
		// definitions are unfolded only while proving the lemma; as a hypothesis it is used in its folded form
		for _, r := range ax.Reveal {
			ex.reveal[r] = true
		}
	}
	st := &State{pc: True, locals: map[*ssa.Alloc][]*Term{}, heap: newHeap(Const("wm.ax", IntSort)), wm: Const("wm.ax", IntSort)}
	env := &Env{ex: ex, vars: map[string]Value{}, st: st, old: st, pkg: eng.pkgByName[ax.Pkg]}
	t, err := env.boolExpr(ax.E, goal)
	if err != nil || goal {
		return t, ex, err
	}
	// used as a hypothesis the statement holds for every heap: generalise over the symbolic heap arrays it mentions
	memo := st.heap.base.memo
	if len(memo) == 0 {
		return t, ex, nil
	}
	var keys []string
	for k := range memo {
		keys = append(keys, k)
	}
	sort.Strings(keys)
	sub := map[*Term]*Term{}
	var bound []*Term
	for _, k := range keys {
		c := memo[k]
		b := BoundVar("heap."+k, c.Sort)
		sub[c] = b
		bound = append(bound, b)
	}
	body := Subst(t, sub)
	if body == t {
		return t, ex, nil
	}
	// a heap array that is only ever read at one (syntactic) object, select(H, b), is further generalised to that
	// object's own contents: the statement then applies whatever term denotes those contents
	for _, hb := range bound {
		if hb.Sort.Kind != SArray || hb.Sort.Elem.Kind != SArray {
			continue
		}
		var sel *Term
		ok := true
		seen := map[*Term]bool{}
		var walk func(x *Term)
		walk = func(x *Term) {
			if seen[x] || !ok {
				return
			}
			seen[x] = true
			if x.Op == "select" && x.Args[0] == hb {
				if sel == nil {
					sel = x
				} else if sel != x {
					ok = false
				}
				walk(x.Args[1])
				return
			}
			if x == hb {
				ok = false
				return
			}
			for _, a := range x.Args {
				walk(a)
			}
			for _, p := range x.Pats {
				for _, y := range p {
					walk(y)
				}
			}
		}
		walk(body)
		if ok && sel != nil {
			nb := BoundVar("obj."+hb.Name, hb.Sort.Elem)
			body = Subst(body, map[*Term]*Term{sel: nb})
			for i := range bound {
				if bound[i] == hb {
					bound[i] = nb
				}
			}
		}
	}
	if body.Op == "forall" {
		// merge the whole prefix of universal quantifiers into one binder, so that the triggers are chosen on the
		// innermost body and mention every bound variable (a nested quantifier without triggers is left to MBQI)
		all := append([]*Term{}, bound...)
		inner := body
		for inner.Op == "forall" {
			all = append(all, inner.Bound...)
			inner = inner.Args[0]
		}
		return Forall(all, inner, choosePatterns(all, inner)), ex, nil
	}
	return Forall(bound, body, choosePatterns(bound, body)), ex, nil
}

type axiomTerm struct {
	name string
	t    *Term
	syms map[string]bool
}

func termSymbols(t *Term, out map[string]bool, seen map[*Term]bool) {
	if seen[t] {
		return
	}
	seen[t] = true
	if t.Op == "uf" {
		out[t.Name] = true
	}
	for _, a := range t.Args {
		termSymbols(a, out, seen)
	}
}

var axiomCache []axiomTerm
var axiomCacheDone bool

func (eng *Engine) axiomTerms() []axiomTerm {
	if axiomCacheDone {
		return axiomCache
	}
	axiomCacheDone = true
	for _, name := range eng.contracts.AxOrd {
		ax := eng.contracts.Axioms[name]
		t, err := eng.compileClosed(ax, false)
		if err != nil {
			eng.bindingErrors = append(eng.bindingErrors, fmt.Sprintf("axiom %s: %v", name, err))
			continue
		}
		syms := map[string]bool{}
		termSymbols(t, syms, map[*Term]bool{})
		axiomCache = append(axiomCache, axiomTerm{name, t, syms})
	}
	return axiomCache
}

// relevantAxioms: axioms (and lemmas proved elsewhere) sharing an uninterpreted symbol with the goal, transitively.
func (eng *Engine) relevantAxioms(terms []*Term, exclude string, onlyAxiomsAnd map[string]bool) ([]*Term, []string) {
	syms := map[string]bool{}
	seen := map[*Term]bool{}
	for _, t := range terms {
		termSymbols(t, syms, seen)
	}
	all := eng.axiomTerms()
	used := map[string]bool{}
	changed := true
	for changed {
		changed = false
		for _, a := range all {
			if used[a.name] || a.name == exclude {
				continue
			}
			ax := eng.contracts.Axioms[a.name]
			if ax.Lemma && onlyAxiomsAnd != nil && !onlyAxiomsAnd[a.name] {
				continue
			}
			if isCanary(ax) {
				continue // deliberately false statements are never hypotheses
			}
			hit := false
			for s := range a.syms {
				if syms[s] && !builtinSym(s) {
					hit = true
					break
				}
			}
			if hit {
				used[a.name] = true
				for s := range a.syms {
					if !syms[s] {
						syms[s] = true
						changed = true
					}
				}
			}
		}
	}
	var out []*Term
	var names []string
	for _, a := range all {
		if used[a.name] {
			out = append(out, a.t)
			names = append(names, a.name)
		}
	}
	return out, names
}

func builtinSym(s string) bool {
	return s == "dyntype" || s == "str_len" || s == "str_at" || s == "idx"
}

func (eng *Engine) lemmaObligation(name string) (*Obligation, error) {
	resetNaming()
	ax := eng.contracts.Axioms[name]
	g, ex, err := eng.compileClosedEx(ax, true)
	if err != nil {
		return nil, err
	}
	uses := map[string]bool{}
	for _, u := range ax.Uses {
		uses[u] = true
	}
	o := &Obligation{Name: "lemma#" + name, Func: "lemma " + name, Kind: "lemma", PC: True, Goal: g, Text: ax.Text, exec: ex, NAssume: len(ex.assumes)}
	hyps, used := eng.relevantAxioms([]*Term{g}, name, uses)
	o.Extra = hyps
	o.lemmaUses = used
	o.Pos = fmt.Sprintf("%s:%d", ax.File, ax.Line)
	return o, nil
}

// script renders the obligation: assumptions ∧ pc ∧ ¬goal must be unsat.
func hasQuantifier(t *Term, memo map[*Term]bool) bool {
	if v, ok := memo[t]; ok {
		return v
	}
	r := t.Op == "forall" || t.Op == "exists"
	if !r {
		for _, a := range t.Args {
			if hasQuantifier(a, memo) {
				r = true
				break
			}
		}
	}
	memo[t] = r
	return r
}

// script renders the obligation. relaxed: hypotheses containing quantifiers are dropped (sound: fewer hypotheses).
// The second result lists the axioms used; the third says whether anything was dropped.
func (eng *Engine) scriptR(o *Obligation, wantModel bool, relaxed bool) (string, []string, bool) {
	s, ax := eng.script(o, wantModel)
	if !relaxed {
		return s, ax, false
	}
	memo := map[*Term]bool{}
	var hyps []*Term
	dropped := false
	add := func(ts []*Term) {
		for _, t := range ts {
			if hasQuantifier(t, memo) {
				dropped = true
				continue
			}
			hyps = append(hyps, t)
		}
	}
	if o.exec != nil {
		add(o.exec.assumes[:o.NAssume])
	}
	add(o.Extra)
	if !dropped {
		return s, ax, false
	}
	core := append(append([]*Term{}, hyps...), o.PC, Not(o.Goal))
	var axNames []string
	if o.Kind != "lemma" {
		var axs []*Term
		axs, axNames = eng.relevantAxioms(core, "", nil)
		var keep []*Term
		for _, a := range axs {
			if !hasQuantifier(a, memo) {
				keep = append(keep, a)
			}
		}
		hyps = append(keep, hyps...)
	}
	sc := &Script{Asserts: append(append([]*Term{}, hyps...), o.PC, Not(o.Goal)), Observe: observables(o.Goal)}
	return sc.Render("ALL", nil, wantModel), axNames, true
}

func (eng *Engine) script(o *Obligation, wantModel bool) (string, []string) {
	if o.exec != nil && o.exec.hc != nil {
		heapConsts = o.exec.hc
	}
	var hyps []*Term
	if o.exec != nil {
		hyps = append(hyps, o.exec.assumes[:o.NAssume]...)
	}
	hyps = append(hyps, o.Extra...)
	core := append(append([]*Term{}, hyps...), o.PC, Not(o.Goal))
	var axNames []string
	if o.Kind != "lemma" {
		var ax []*Term
		ax, axNames = eng.relevantAxioms(core, "", nil)
		hyps = append(ax, hyps...)
	}
	sc := &Script{Asserts: append(append([]*Term{}, hyps...), o.PC, Not(o.Goal)), Observe: observables(o.Goal)}
	return sc.Render("ALL", nil, wantModel), axNames
}

// observables: closed scalar select / function applications inside the goal, reported with the model.
func observables(goal *Term) []*Term {
	var out []*Term
	seen := map[*Term]bool{}
	var walk func(t *Term)
	walk = func(t *Term) {
		if seen[t] || len(out) >= 80 {
			return
		}
		seen[t] = true
		if (t.Op == "select" || t.Op == "uf") && !t.open && t.Sort.Kind != SArray {
			out = append(out, t)
		}
		for _, a := range t.Args {
			walk(a)
		}
	}
	walk(goal)
	return out
}

func (eng *Engine) reachScript(rep *FuncReport) string {
	ex := rep.exec
	if ex.hc != nil {
		heapConsts = ex.hc
	}
	hyps := append([]*Term{}, ex.assumes[:rep.NAssumeEnd]...)
	ax, _ := eng.relevantAxioms(append(hyps, rep.ReachPC), "", nil)
	sc := &Script{Asserts: append(append(ax, hyps...), rep.ReachPC)}
	return sc.Render("ALL", nil, false)
}

var _ = token.NoPos

// frameObligationsLoop: like frameObligations, but the modifies targets are evaluated in the state before
// the loop (pre) while the comparison is between the loop-head state (head) and the back-edge state (out).
func (ex *Exec) frameObligationsLoop(fr *Frame, out *State, head *State, pre *State, mods []ModTarget, key string, labelPrefix string) {
	saved := fr.entry
	// evaluate targets in pre, compare against head
	allowedAll := false
	allowed := map[string][]*Term{}
	whole := map[string]bool{}
	env := ex.frameEnv(fr, pre, saved)
	freshOK := false
	for _, mt := range mods {
		switch {
		case mt.Fresh:
			freshOK = true
		case mt.All:
			allowedAll = true
		case mt.Key != "":
			whole[mt.Key] = true
		default:
			ks, ref, err := ex.targetKeys(env, mt)
			if err != nil {
				ex.eng.bindingErrors = append(ex.eng.bindingErrors, fmt.Sprintf("%s: loop modifies %s: %v", key, mt.Text, err))
				return
			}
			for _, k := range ks {
				if ref == nil {
					whole[k] = true
				} else {
					allowed[k] = append(allowed[k], ref)
				}
			}
		}
	}
	if allowedAll {
		return
	}
	if out.heap.base != head.heap.base {
		ex.prove(key, out, "loop-frame", labelPrefix+"whole-heap", False, "the loop body havocs the whole heap but the loop's modifies is not *", fr.fn.Pos())
		return
	}
	var keys []string
	for k := range out.heap.m {
		keys = append(keys, k)
	}
	sort.Strings(keys)
	for _, k := range keys {
		if whole[k] || strings.HasPrefix(k, "VS:") || strings.HasPrefix(k, "VD:") {
			continue
		}
		srt := keySortReg[k]
		after := out.heap.Get(k, srt)
		before := head.heap.Get(k, srt)
		if after == before {
			continue
		}
		var goal *Term
		if srt.Kind != SArray {
			goal = Eq(after, before)
		} else {
			r := Fresh("sk.frame.ref", srt.Idx)
			var conds []*Term
			if srt.Idx == IntSort {
				if freshOK {
					conds = append(conds, Gt(r, IntLit(0)), Le(r, fr.entry.wm))
				} else {
					conds = append(conds, Gt(r, IntLit(0)), Le(r, head.wm))
				}
			}
			for _, a := range allowed[k] {
				conds = append(conds, Not(Eq(r, a)))
			}
			goal = Implies(And(conds...), Eq(Select(after, r), Select(before, r)))
		}
		ex.prove(key, out, "loop-frame", labelPrefix+k, goal, "only what the loop's modifies names may change: "+k, fr.fn.Pos())
	}
}

func isCanary(ax *Axiom) bool {
	for _, p := range ax.Props {
		if p == "CANARY" {
			return true
		}
	}
	return false
}

// relevantAxiomNames: the axioms / lemmas an obligation's hypotheses would include (for the lemma-closure bookkeeping).
func (eng *Engine) relevantAxiomNames(o *Obligation) ([]*Term, []string) {
	var hyps []*Term
	if o.exec != nil {
		hyps = append(hyps, o.exec.assumes[:o.NAssume]...)
	}
	core := append(append([]*Term{}, hyps...), o.PC, Not(o.Goal))
	return eng.relevantAxioms(core, "", nil)
}
