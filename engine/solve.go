package main

// Solver racing: z3-new, z3 (4.8.12) and cvc5 on one SMT-LIB file; first definite answer wins.

import (
	"bytes"
	"context"
	"fmt"
	"os"
	"os/exec"
	"path/filepath"
	"strings"
	"sync"
	"time"
)

type SolveResult struct {
	Status       string // "unsat", "sat", "unknown", "timeout", "error"
	Solver       string
	Seconds      float64
	Output       string // raw output of the deciding solver (model on sat)
	All          map[string]string
	RelaxedModel string
}

type solverSpec struct {
	name string
	args func(file string, timeout time.Duration) []string
}

var solvers = []solverSpec{
	{"z3-new", func(f string, t time.Duration) []string {
		return []string{"z3-new", fmt.Sprintf("-T:%d", int(t.Seconds())+1), f}
	}},
	{"z3", func(f string, t time.Duration) []string {
		return []string{"z3", fmt.Sprintf("-T:%d", int(t.Seconds())+1), f}
	}},
	{"cvc5", func(f string, t time.Duration) []string {
		return []string{"cvc5", fmt.Sprintf("--tlimit=%d", t.Milliseconds()), f}
	}},
}

var availableSolvers []solverSpec
var solverOnce sync.Once

func initSolvers() {
	solverOnce.Do(func() {
		for _, s := range solvers {
			if _, err := exec.LookPath(s.name); err == nil {
				availableSolvers = append(availableSolvers, s)
			}
		}
	})
}

func firstLine(s string) string {
	for _, l := range strings.Split(s, "\n") {
		l = strings.TrimSpace(l)
		if l != "" {
			return l
		}
	}
	return ""
}

// satIsFinal: phases that expect models (reachability guards, must-fail canaries) take the first `sat`.
var satIsFinal bool

// Solve runs the script; definite = sat or unsat.
func Solve(script string, dir string, name string, timeout time.Duration) SolveResult {
	initSolvers()
	if len(availableSolvers) == 0 {
		return SolveResult{Status: "error", Output: "no SMT solver found"}
	}
	file := filepath.Join(dir, sanitizeFile(name)+".smt2")
	if err := os.WriteFile(file, []byte(script), 0o644); err != nil {
		return SolveResult{Status: "error", Output: err.Error()}
	}
	// fast path: most obligations are decided by one solver at once; only the others are raced on all three
	if len(availableSolvers) > 1 && timeout > 3*time.Second {
		fa := availableSolvers[0].args(file, 2*time.Second)
		fctx, fcancel := context.WithTimeout(context.Background(), 4*time.Second)
		fstart := time.Now()
		var fout bytes.Buffer
		fcmd := exec.CommandContext(fctx, fa[0], fa[1:]...)
		fcmd.Stdout = &fout
		fcmd.Stderr = &fout
		_ = fcmd.Run()
		fcancel()
		quantifiedFast := !satIsFinal && !strings.HasSuffix(name, ".relaxed") && (strings.Contains(script, "(forall ") || strings.Contains(script, "(exists "))
		if fl := firstLine(fout.String()); fl == "unsat" || (fl == "sat" && !quantifiedFast) {
			return SolveResult{Status: fl, Solver: availableSolvers[0].name, Seconds: time.Since(fstart).Seconds(), Output: fout.String(), All: map[string]string{availableSolvers[0].name: fl}}
		}
	}
	ctx, cancel := context.WithTimeout(context.Background(), timeout+2*time.Second)
	defer cancel()
	type ans struct {
		solver string
		status string
		out    string
		secs   float64
	}
	ch := make(chan ans, len(availableSolvers))
	start := time.Now()
	for _, s := range availableSolvers {
		s := s
		go func() {
			a := s.args(file, timeout)
			cmd := exec.CommandContext(ctx, a[0], a[1:]...)
			var out bytes.Buffer
			cmd.Stdout = &out
			cmd.Stderr = &out
			_ = cmd.Run()
			o := out.String()
			fl := firstLine(o)
			st := "unknown"
			switch {
			case fl == "unsat":
				st = "unsat"
			case fl == "sat":
				st = "sat"
			case strings.Contains(fl, "timeout") || ctx.Err() != nil:
				st = "timeout"
			case strings.HasPrefix(fl, "(error"):
				st = "error"
			}
			ch <- ans{s.name, st, o, time.Since(start).Seconds()}
		}()
	}
	res := SolveResult{Status: "unknown", All: map[string]string{}}
	got := 0
	// a model of a quantified query is the fragile answer (the solvers' model-based instantiation is incomplete):
	// it is kept, but the other solvers may still refute it with `unsat` before the timeout
	quantified := !satIsFinal && !strings.HasSuffix(name, ".relaxed") && (strings.Contains(script, "(forall ") || strings.Contains(script, "(exists "))
	var satAns *ans
	for got < len(availableSolvers) {
		a := <-ch
		got++
		res.All[a.solver] = a.status
		if a.status == "sat" && quantified && got < len(availableSolvers) {
			if satAns == nil {
				c := a
				satAns = &c
			}
			continue
		}
		if a.status == "unsat" || a.status == "sat" {
			res.Status = a.status
			res.Solver = a.solver
			res.Seconds = a.secs
			res.Output = a.out
			cancel()
			return res
		}
		if res.Output == "" || a.status == "error" {
			res.Output += a.solver + ": " + truncate(a.out, 600) + "\n"
		}
	}
	if satAns != nil {
		res.Status = "sat"
		res.Solver = satAns.solver
		res.Seconds = satAns.secs
		res.Output = satAns.out
		return res
	}
	res.Seconds = time.Since(start).Seconds()
	allTimeout := true
	for _, s := range res.All {
		if s != "timeout" {
			allTimeout = false
		}
	}
	if allTimeout {
		res.Status = "timeout"
	}
	return res
}

func truncate(s string, n int) string {
	if len(s) > n {
		return s[:n] + "…"
	}
	return s
}

func sanitizeFile(s string) string {
	var sb strings.Builder
	for _, r := range s {
		switch {
		case r >= 'a' && r <= 'z', r >= 'A' && r <= 'Z', r >= '0' && r <= '9', r == '_', r == '.', r == '-':
			sb.WriteRune(r)
		default:
			sb.WriteRune('_')
		}
	}
	out := sb.String()
	if len(out) > 150 {
		out = out[:150]
	}
	return out
}
