package main

// Compilation of contract expressions to SMT terms in a symbolic state.

import (
	"fmt"
	"go/constant"
	"go/types"
	"hash/fnv"
	"math/big"
	"sort"
	"strconv"
	"strings"

	"golang.org/x/tools/go/ssa"
)

type Env struct {
	ex      *Exec
	vars    map[string]Value
	st      *State
	old     *State
	fr      *Frame
	pkg     *types.Package
	results []Value
	resTup  *types.Tuple
	depth   int
	cur     *State                 // the current state while compiling inside old(...)
	binders int                    // number of enclosing genuine (non-Skolemised) quantifiers
	entryWm *Term                  // watermark at entry of the function under verification (for owned())
	cells   map[string]cellBinding // captured variables of a closure whose contract is applied at a call site
}

// cellBinding: the cell of a captured variable (closures capture by reference) and the type of its contents.
type cellBinding struct {
	ref *Term
	t   types.Type
}

func (e *Env) with(name string, v Value) *Env {
	n := *e
	n.vars = make(map[string]Value, len(e.vars)+1)
	for k, x := range e.vars {
		n.vars[k] = x
	}
	n.vars[name] = v
	return &n
}

func (e *Env) inState(st *State) *Env {
	n := *e
	n.st = st
	return &n
}

type compileErr struct{ msg string }

func cfail(format string, a ...interface{}) { panic(compileErr{fmt.Sprintf(format, a...)}) }

var untypedInt = types.Typ[types.UntypedInt]
var untypedNil = types.Typ[types.UntypedNil]
var specBool = types.Typ[types.Bool]
var specInt = types.Typ[types.Int]

// frameEnv builds the environment of the function being verified.
func (ex *Exec) frameEnv(fr *Frame, st, old *State) *Env {
	env := &Env{ex: ex, vars: map[string]Value{}, st: st, old: old, fr: fr, pkg: fr.fn.Pkg.Pkg, results: fr.results, resTup: fr.fn.Signature.Results()}
	for i, p := range fr.fn.Params {
		if i < len(fr.args) {
			env.vars[p.Name()] = fr.args[i]
		}
	}
	return env
}

func (ex *Exec) compileBool(fr *Frame, st, old *State, e *Expr, goal bool) (t *Term, err error) {
	env := ex.frameEnv(fr, st, old)
	return env.boolExpr(e, goal)
}

// compileInt: an integer-valued specification expression (loop measures).
func (ex *Exec) compileInt(fr *Frame, st, old *State, e *Expr) (t *Term, err error) {
	env := ex.frameEnv(fr, st, old)
	defer func() {
		if r := recover(); r != nil {
			if ce, ok := r.(compileErr); ok {
				err = fmt.Errorf("%s", ce.msg)
				return
			}
			panic(r)
		}
	}()
	v := env.compile(e, 0)
	if len(v.C) != 1 || v.C[0].Sort != IntSort {
		return nil, fmt.Errorf("expression %s is not an integer", e)
	}
	return v.C[0], nil
}

func (env *Env) boolExpr(e *Expr, goal bool) (t *Term, err error) {
	defer func() {
		if r := recover(); r != nil {
			if ce, ok := r.(compileErr); ok {
				err = fmt.Errorf("%s", ce.msg)
				return
			}
			panic(r)
		}
	}()
	pol := -1
	if goal {
		pol = 1
	}
	v := env.compile(e, pol)
	if len(v.C) != 1 || v.C[0].Sort != BoolSort {
		return nil, fmt.Errorf("expression %s is not boolean", e)
	}
	return v.C[0], nil
}

func boolVal(t *Term) Value { return Value{T: specBool, C: []*Term{t}} }
func intVal(t *Term) Value  { return Value{T: specInt, C: []*Term{t}} }

func (env *Env) compile(e *Expr, pol int) Value {
	switch e.Kind {
	case "int":
		b, ok := new(big.Int).SetString(e.Name, 0)
		if !ok {
			cfail("bad integer literal %s", e.Name)
		}
		return Value{T: untypedInt, C: []*Term{BigLit(b)}}
	case "float":
		f, err := strconv.ParseFloat(e.Name, 64)
		if err != nil {
			cfail("bad float literal %s", e.Name)
		}
		return Value{T: types.Typ[types.Float64], C: []*Term{F64Lit(f)}}
	case "str":
		return Value{T: types.Typ[types.String], C: []*Term{StrLit(e.Name)}}
	case "ident":
		return env.ident(e.Name)
	case "un":
		x := env.compile(e.X, -pol)
		if e.Op == "!" {
			if e.Op == "!" && (len(x.C) != 1 || x.C[0].Sort != BoolSort) {
				cfail("! applied to non-boolean %s", e.X)
			}
			return boolVal(Not(x.C[0]))
		}
		x = env.compile(e.X, 0)
		if x.one().Sort == F64Sort {
			return Value{T: x.T, C: []*Term{mk("fp.neg", F64Sort, x.one())}}
		}
		return Value{T: x.T, C: []*Term{Neg(x.one())}}
	case "bin":
		return env.binary(e, pol)
	case "call":
		return env.callExpr(e, pol)
	case "index":
		return env.indexExpr(e)
	case "slice":
		x := env.compile(e.X, 0)
		if len(x.C) != 4 {
			cfail("slice expression on non-slice %s", e.X)
		}
		lo := IntLit(0)
		hi := x.C[2]
		if e.Args[0] != nil {
			lo = env.compile(e.Args[0], 0).one()
		}
		if e.Args[1] != nil {
			hi = env.compile(e.Args[1], 0).one()
		}
		return Value{T: x.T, C: []*Term{x.C[0], Add(x.C[1], lo), Sub(hi, lo), Sub(x.C[3], lo)}}
	case "sel":
		return env.selector(e)
	}
	cfail("cannot compile %s", e)
	return Value{}
}

// paramSpill: the local a reassigned parameter lives in (go/ssa stores the parameter into it on entry).
func paramSpill(fn *ssa.Function, name string) *ssa.Alloc {
	if fn == nil || len(fn.Blocks) == 0 {
		return nil
	}
	for _, in := range fn.Blocks[0].Instrs {
		if st, ok := in.(*ssa.Store); ok {
			if p, ok := st.Val.(*ssa.Parameter); ok && p.Name() == name {
				if a, ok := st.Addr.(*ssa.Alloc); ok {
					return a
				}
			}
		}
	}
	return nil
}

func (env *Env) ident(name string) Value {
	if v, ok := env.vars[name]; ok {
		// inside a loop (invariants, measures, loop frames) a reassigned parameter means its current value;
		// everywhere else a parameter name means the value passed in
		if env.fr != nil && (env.fr.curLoop != nil || env.ex.paramsCurrent) && env.st != env.old {
			if a := paramSpill(env.fr.fn, name); a != nil {
				t := derefType(a.Type())
				if a.Heap {
					if pv, ok := env.fr.regs[a]; ok {
						return env.ex.readLoc(env.st, &Loc{Kind: LRef, Ref: pv.one(), Keys: refKeys(t), T: t})
					}
				} else if cs, ok := env.st.locals[a]; ok {
					return Value{T: t, C: cs}
				}
			}
		}
		return v
	}
	if cb, ok := env.cells[name]; ok {
		return env.ex.readLoc(env.st, &Loc{Kind: LRef, Ref: cb.ref, Keys: refKeys(cb.t), T: cb.t})
	}
	switch name {
	case "true":
		return boolVal(True)
	case "false":
		return boolVal(False)
	case "nil":
		return Value{T: untypedNil, C: []*Term{IntLit(0)}}
	case "result":
		if len(env.results) == 1 {
			return env.results[0]
		}
		if len(env.results) == 0 {
			cfail("result used but the function returns nothing (or is not at a return point)")
		}
		cfail("result is ambiguous: use result0..result%d", len(env.results)-1)
	case "$wm":
		return intVal(env.st.wm)
	case "MaxInt64":
		return intVal(BigLit(maxInt64))
	case "MinInt64":
		return intVal(BigLit(new(big.Int).Neg(new(big.Int).Add(maxInt64, big.NewInt(1)))))
	}
	if strings.HasPrefix(name, "result") {
		if k, err := strconv.Atoi(name[6:]); err == nil {
			if k < len(env.results) {
				return env.results[k]
			}
			cfail("%s: function has %d results", name, len(env.results))
		}
	}
	// named results
	if env.resTup != nil && len(env.results) == env.resTup.Len() {
		for i := 0; i < env.resTup.Len(); i++ {
			if env.resTup.At(i).Name() == name {
				return env.results[i]
			}
		}
	}
	if env.ex.pointArgs != nil && strings.HasPrefix(name, "arg") {
		if k, err := strconv.Atoi(name[3:]); err == nil && k >= 0 && k < len(env.ex.pointArgs) {
			return env.ex.pointArgs[k]
		}
	}
	if name == "$i" && env.fr != nil && env.fr.curLoop != nil && env.fr.curLoop.rangeIx != nil {
		cs := env.st.locals[env.fr.curLoop.rangeIx]
		if cs != nil {
			return intVal(Add(cs[0], IntLit(1)))
		}
	}
	// locals of the verified function
	if env.fr != nil {
		if v, ok := env.local(name); ok {
			return v
		}
	}
	// ghost variables
	if g, ok := env.ex.eng.contracts.Ghosts[name]; ok {
		srt := env.ex.eng.ghostSort(g)
		key := regKey("GH:"+name, srt)
		return Value{T: env.ex.eng.ghostType(g), C: []*Term{env.st.heap.Get(key, srt)}}
	}
	// 0-ary spec
	if sf, ok := env.ex.eng.contracts.Specs[name]; ok && len(sf.Params) == 0 {
		return env.specCall(sf, nil, 0)
	}
	// package scope
	if env.pkg != nil {
		if v, ok := env.pkgObject(env.pkg, name); ok {
			return v
		}
	}
	cfail("unknown identifier %s", name)
	return Value{}
}

func (env *Env) local(name string) (Value, bool) {
	if env.fr.fn != nil {
		for _, fv := range env.fr.fn.FreeVars {
			if fv.Name() == name {
				pv := env.ex.val(env.fr, env.st, fv)
				t := derefType(fv.Type())
				return env.ex.readLoc(env.st, &Loc{Kind: LRef, Ref: pv.one(), Keys: refKeys(t), T: t}), true
			}
		}
	}
	want := 0
	base := name
	if i := strings.Index(name, "@"); i > 0 {
		base = name[:i]
		want, _ = strconv.Atoi(name[i+1:])
	}
	var cands []*ssa.Alloc
	for _, a := range env.fr.allocSeq {
		if a.Comment != base {
			continue
		}
		// only variables that exist on the path leading to the state at hand
		if !a.Heap {
			if _, ok := env.st.locals[a]; !ok {
				continue
			}
		}
		cands = append(cands, a)
	}
	// also allocs not yet executed are unknown here
	if len(cands) == 0 {
		return Value{}, false
	}
	var a *ssa.Alloc
	if want > 0 {
		// ordinal in source order over all allocs of the function with that name (block order is not source order:
		// the exit block of a loop is created before the blocks of its body); allocs without a position (hidden
		// range indices) keep their block order
		var all []*ssa.Alloc
		positioned := true
		for _, b := range env.fr.fn.Blocks {
			for _, in := range b.Instrs {
				if al, ok := in.(*ssa.Alloc); ok && al.Comment == base {
					all = append(all, al)
					if !al.Pos().IsValid() {
						positioned = false
					}
				}
			}
		}
		if positioned {
			sort.SliceStable(all, func(i, j int) bool { return all[i].Pos() < all[j].Pos() })
		}
		if want <= len(all) {
			a = all[want-1]
		}
		if a == nil {
			return Value{}, false
		}
	} else {
		if len(cands) > 1 {
			// prefer the unique one that is a parameter spill / declared first
			a = cands[len(cands)-1]
			// ambiguous names are resolved to the most recently declared variable in scope
		} else {
			a = cands[0]
		}
	}
	t := derefType(a.Type())
	if a.Heap {
		pv, ok := env.fr.regs[a]
		if !ok {
			return Value{}, false
		}
		return env.ex.readLoc(env.st, &Loc{Kind: LRef, Ref: pv.one(), Keys: refKeys(t), T: t}), true
	}
	cs, ok := env.st.locals[a]
	if !ok {
		return Value{}, false
	}
	return Value{T: t, C: cs}, true
}

func constant2big(c constant.Value) *big.Int {
	if c.Kind() != constant.Int {
		return big.NewInt(0)
	}
	if i, ok := constant.Int64Val(c); ok {
		return big.NewInt(i)
	}
	b, _ := new(big.Int).SetString(c.ExactString(), 10)
	return b
}

func (env *Env) pkgObject(pkg *types.Package, name string) (Value, bool) {
	obj := pkg.Scope().Lookup(name)
	if obj == nil {
		return Value{}, false
	}
	switch o := obj.(type) {
	case *types.Const:
		t := o.Type()
		switch {
		case isInteger(t) || t == untypedInt || o.Val().Kind() == constant.Int:
			return Value{T: t, C: []*Term{BigLit(constant2big(constant.ToInt(o.Val())))}}, true
		case o.Val().Kind() == constant.Bool:
			return boolVal(BoolLit(constant.BoolVal(o.Val()))), true
		case o.Val().Kind() == constant.String:
			return Value{T: t, C: []*Term{StrLit(constant.StringVal(o.Val()))}}, true
		case o.Val().Kind() == constant.Float:
			f, _ := constant.Float64Val(o.Val())
			return Value{T: t, C: []*Term{F64Lit(f)}}, true
		}
	case *types.Var:
		sp := env.ex.eng.prog.Package(pkg)
		if sp != nil {
			if g, ok := sp.Members[name].(*ssa.Global); ok {
				t := derefType(g.Type())
				return env.ex.readLoc(env.st, &Loc{Kind: LGlobal, Keys: globalKeys(g), T: t}), true
			}
		}
	}
	return Value{}, false
}

func (env *Env) findPackage(name string) *types.Package {
	if env.pkg != nil {
		if env.pkg.Name() == name {
			return env.pkg
		}
		for _, imp := range env.pkg.Imports() {
			if imp.Name() == name {
				return imp
			}
		}
	}
	return env.ex.eng.pkgByName[name]
}

func (env *Env) selector(e *Expr) Value {
	// package-qualified name?
	if e.X.Kind == "ident" {
		if _, isVar := env.vars[e.X.Name]; !isVar {
			isLocal := false
			if env.fr != nil {
				_, isLocal = env.local(e.X.Name)
			}
			if !isLocal {
				if p := env.findPackage(e.X.Name); p != nil {
					if v, ok := env.pkgObject(p, e.Name); ok {
						return v
					}
					cfail("%s.%s: no such constant or variable", e.X.Name, e.Name)
				}
			}
		}
	}
	x := env.compile(e.X, 0)
	return env.fieldOf(x, e.Name, e)
}

func (env *Env) fieldOf(x Value, name string, e *Expr) Value {
	t := x.T
	if p, ok := t.Underlying().(*types.Pointer); ok {
		st, ok := p.Elem().Underlying().(*types.Struct)
		if !ok {
			cfail("%s: selector on pointer to non-struct %s", e, typeStr(t))
		}
		idx, emb := findField(st, name)
		if idx < 0 {
			cfail("%s: type %s has no field %s", e, typeStr(p.Elem()), name)
		}
		if emb != nil {
			// promoted field through embedded struct: first select the embedded field
			inner := env.fieldOf(x, st.Field(emb[0]).Name(), e)
			return env.fieldOf(inner, name, e)
		}
		off := fieldOffset(st, idx)
		var loc *Loc
		if x.Loc != nil {
			nl := *x.Loc
			nl.Off += off
			nl.T = st.Field(idx).Type()
			loc = &nl
		} else {
			loc = &Loc{Kind: LRef, Ref: x.one(), Keys: refKeys(p.Elem()), Off: off, T: st.Field(idx).Type()}
		}
		if x.St != nil {
			v := env.ex.readLoc(x.St, loc)
			v.St = x.St
			return v
		}
		return env.typed(env.ex.readLoc(env.st, loc))
	}
	if st, ok := t.Underlying().(*types.Struct); ok {
		idx, emb := findField(st, name)
		if idx < 0 {
			cfail("%s: type %s has no field %s", e, typeStr(t), name)
		}
		if emb != nil {
			inner := env.fieldOf(x, st.Field(emb[0]).Name(), e)
			return env.fieldOf(inner, name, e)
		}
		off := fieldOffset(st, idx)
		n := len(layout(st.Field(idx).Type()))
		return Value{T: st.Field(idx).Type(), C: x.C[off : off+n]}
	}
	cfail("%s: selector .%s on %s", e, name, typeStr(t))
	return Value{}
}

// findField returns the index of a direct field, or the path through an embedded field.
func findField(st *types.Struct, name string) (int, []int) {
	for i := 0; i < st.NumFields(); i++ {
		if st.Field(i).Name() == name {
			return i, nil
		}
	}
	for i := 0; i < st.NumFields(); i++ {
		f := st.Field(i)
		if !f.Embedded() {
			continue
		}
		ft := f.Type()
		if p, ok := ft.Underlying().(*types.Pointer); ok {
			ft = p.Elem()
		}
		if ist, ok := ft.Underlying().(*types.Struct); ok {
			if j, _ := findField(ist, name); j >= 0 {
				return i, []int{i}
			}
		}
	}
	return -1, nil
}

func (env *Env) indexExpr(e *Expr) Value {
	x := env.compile(e.X, 0)
	i := env.compile(e.Args[0], 0)
	switch xt := x.T.Underlying().(type) {
	case *types.Slice:
		loc := &Loc{Kind: LElem, Ref: x.C[0], Idx: Idx(x.C[1], i.one()), Keys: elemKeys(xt.Elem()), T: xt.Elem()}
		if x.St != nil {
			v := env.ex.readLoc(x.St, loc)
			v.St = x.St
			return v
		}
		return env.typed(env.ex.readLoc(env.st, loc))
	case *types.Map:
		if mapKeySort(xt) == nil {
			cfail("%s: map with composite key", e)
		}
		_, v := env.ex.mapRead(env.st, xt, x.one(), i.one())
		return v
	case *types.Basic:
		if isString(x.T) {
			return Value{T: types.Typ[types.Uint8], C: []*Term{UF("str_at", IntSort, x.one(), i.one())}}
		}
	case *types.Pointer:
		if arr, ok := xt.Elem().Underlying().(*types.Array); ok {
			loc := &Loc{Kind: LElem, Ref: x.one(), Idx: i.one(), Keys: elemKeys(arr.Elem()), T: arr.Elem()}
			return env.ex.readLoc(env.st, loc)
		}
	case *types.Array:
		loc := &Loc{Kind: LElem, Ref: x.one(), Idx: i.one(), Keys: elemKeys(xt.Elem()), T: xt.Elem()}
		return env.ex.readLoc(env.st, loc)
	}
	if x.one().Sort.Kind == SArray {
		return Value{T: env.ex.eng.sortGoType(x.one().Sort.Elem), C: []*Term{Select(x.one(), i.one())}}
	}
	cfail("%s: cannot index %s", e, typeStr(x.T))
	return Value{}
}

// typed records the type facts (ranges, allocatedness of references) of a closed value read from the heap.
func (env *Env) typed(v Value) Value {
	for _, c := range v.C {
		if c.open {
			return v
		}
	}
	env.ex.assumeTyped(env.st, v)
	return v
}

func isF64(v Value) bool { return len(v.C) == 1 && v.C[0].Sort == F64Sort }

func (env *Env) binary(e *Expr, pol int) Value {
	switch e.Op {
	case "==>":
		a := env.compile(e.Args[0], -pol)
		b := env.compile(e.Args[1], pol)
		return boolVal(Implies(a.one(), b.one()))
	case "<==>":
		return env.iff(e, pol)
	case "&&":
		a := env.compile(e.Args[0], pol)
		b := env.compile(e.Args[1], pol)
		return boolVal(And(a.one(), b.one()))
	case "||":
		a := env.compile(e.Args[0], pol)
		b := env.compile(e.Args[1], pol)
		return boolVal(Or(a.one(), b.one()))
	}
	a := env.compile(e.Args[0], 0)
	b := env.compile(e.Args[1], 0)
	if (e.Op == "==" || e.Op == "!=") && pol != 0 && len(a.C) == 1 && len(b.C) == 1 && a.C[0].Sort == BoolSort && b.C[0].Sort == BoolSort {
		memo := map[*Term]bool{}
		if hasQuantifier(a.C[0], memo) || hasQuantifier(b.C[0], memo) {
			if e.Op == "==" {
				return env.iff(e, pol)
			}
			return boolVal(Not(env.iff(e, -pol).one()))
		}
	}
	switch e.Op {
	case "==", "!=":
		// comparison of a slice with nil: the nil slice has a nil base
		if a.T == untypedNil && len(b.C) == 4 {
			a, b = b, a
		}
		if b.T == untypedNil && len(a.C) == 4 {
			eq := Eq(a.C[0], IntLit(0))
			if e.Op == "!=" {
				eq = Not(eq)
			}
			return boolVal(eq)
		}
		// the address of a local or of an embedded struct (interior pointer) is never nil
		if a.T == untypedNil && b.Loc != nil {
			a, b = b, a
		}
		if b.T == untypedNil && a.Loc != nil && len(a.C) == 0 {
			if e.Op == "!=" {
				return boolVal(True)
			}
			return boolVal(False)
		}
		if len(a.C) != len(b.C) {
			cfail("%s: operands have different shapes (%s vs %s)", e, typeStr(a.T), typeStr(b.T))
		}
		for j := range a.C {
			if a.C[j].Sort != b.C[j].Sort {
				cfail("%s: operands have different sorts (%s vs %s)", e, typeStr(a.T), typeStr(b.T))
			}
		}
		eq := valuesEqual(a, b)
		if e.Op == "!=" {
			eq = Not(eq)
		}
		return boolVal(eq)
	}
	if len(a.C) != 1 || len(b.C) != 1 {
		cfail("%s: operator %s on composite values", e, e.Op)
	}
	x, y := a.C[0], b.C[0]
	if x.Sort != y.Sort {
		cfail("%s: mismatched operand sorts %s and %s", e, x.Sort, y.Sort)
	}
	rt := a.T
	if rt == untypedInt {
		rt = b.T
	}
	switch x.Sort {
	case IntSort:
		switch e.Op {
		case "<":
			return boolVal(Lt(x, y))
		case "<=":
			return boolVal(Le(x, y))
		case ">":
			return boolVal(Gt(x, y))
		case ">=":
			return boolVal(Ge(x, y))
		case "+":
			return Value{T: rt, C: []*Term{Add(x, y)}}
		case "-":
			return Value{T: rt, C: []*Term{Sub(x, y)}}
		case "*":
			return Value{T: rt, C: []*Term{Mul(x, y)}}
		case "/":
			return Value{T: rt, C: []*Term{TDiv(x, y)}}
		case "%":
			return Value{T: rt, C: []*Term{TMod(x, y)}}
		}
	case F64Sort:
		switch e.Op {
		case "<":
			return boolVal(mk("fp.lt", BoolSort, x, y))
		case "<=":
			return boolVal(mk("fp.leq", BoolSort, x, y))
		case ">":
			return boolVal(mk("fp.gt", BoolSort, x, y))
		case ">=":
			return boolVal(mk("fp.geq", BoolSort, x, y))
		case "+":
			return Value{T: rt, C: []*Term{F64Arith("add", x, y)}}
		case "-":
			return Value{T: rt, C: []*Term{F64Arith("sub", x, y)}}
		case "*":
			return Value{T: rt, C: []*Term{F64Arith("mul", x, y)}}
		case "/":
			return Value{T: rt, C: []*Term{F64Arith("div", x, y)}}
		}
	case StrSort:
		switch e.Op {
		case "<":
			return boolVal(UF("str_lt", BoolSort, x, y))
		case ">":
			return boolVal(UF("str_lt", BoolSort, y, x))
		case "<=":
			return boolVal(Not(UF("str_lt", BoolSort, y, x)))
		case ">=":
			return boolVal(Not(UF("str_lt", BoolSort, x, y)))
		case "+":
			return Value{T: rt, C: []*Term{UF("str_cat", StrSort, x, y)}}
		}
	}
	cfail("%s: operator %s not supported on %s", e, e.Op, x.Sort)
	return Value{}
}

// iff compiles A <==> B as two implications so that quantifiers inside keep a definite polarity.
func (env *Env) iff(e *Expr, pol int) Value {
	if pol == 0 {
		a := env.compile(e.Args[0], 0)
		b := env.compile(e.Args[1], 0)
		return boolVal(Eq(a.one(), b.one()))
	}
	a1 := env.compile(e.Args[0], -pol).one()
	b1 := env.compile(e.Args[1], pol).one()
	b2 := env.compile(e.Args[1], -pol).one()
	a2 := env.compile(e.Args[0], pol).one()
	if a1 == a2 && b1 == b2 {
		return boolVal(Eq(a1, b1))
	}
	return boolVal(And(Implies(a1, b1), Implies(b2, a2)))
}

func (env *Env) resolveType(name string) types.Type {
	t, err := env.ex.eng.parseType(name, env.pkg)
	if err != nil {
		cfail("%v", err)
	}
	return t
}

func (env *Env) quantifier(e *Expr, pol int, universal bool) Value {
	// forall(i, lo, hi, body) | forallv(x, T, body)
	typed := strings.HasSuffix(e.Name, "v")
	if (typed && len(e.Args) != 3) || (!typed && len(e.Args) != 4) {
		cfail("%s: wrong number of arguments", e)
	}
	if e.Args[0].Kind != "ident" {
		cfail("%s: bound variable must be an identifier", e)
	}
	name := e.Args[0].Name
	var vt types.Type = specInt
	if typed {
		vt = env.resolveType(e.Args[1].Name)
	}
	l := layout(vt)
	// a constant can replace the bound variable only outside every genuine quantifier (no dependency on outer variables)
	skolem := ((universal && pol > 0) || (!universal && pol < 0)) && env.binders == 0
	bv := Value{T: vt, C: make([]*Term, len(l))}
	for j, c := range l {
		if skolem {
			bv.C[j] = Fresh("sk."+name+c.Suffix, c.Sort)
		} else {
			bv.C[j] = BoundVar(name+c.Suffix, c.Sort)
		}
	}
	inner := env.with(name, bv)
	if !skolem {
		inner.binders = env.binders + 1
	}
	var guard *Term = True
	if !typed {
		lo := env.compile(e.Args[1], 0).one()
		hi := env.compile(e.Args[2], 0).one()
		guard = And(Le(lo, bv.C[0]), Lt(bv.C[0], hi))
	} else {
		// typed facts for bound values
		var gs []*Term
		for j, c := range l {
			switch c.Kind {
			case "int":
				gs = append(gs, inRange(bv.C[j], c.GoT))
			case "ref", "sbase":
				gs = append(gs, Ge(bv.C[j], IntLit(0)))
			}
		}
		guard = And(gs...)
	}
	bodyPol := pol
	body := inner.compile(e.Args[len(e.Args)-1], bodyPol)
	if len(body.C) != 1 || body.C[0].Sort != BoolSort {
		cfail("%s: quantifier body is not boolean", e)
	}
	var f *Term
	if universal {
		f = Implies(guard, body.C[0])
	} else {
		f = And(guard, body.C[0])
	}
	if skolem {
		return boolVal(f)
	}
	if universal {
		// flatten forall x. G ==> forall y. B into one quantifier (better triggers)
		bound := bv.C
		if inner := body.C[0]; inner.Op == "forall" {
			bound = append(append([]*Term{}, bv.C...), inner.Bound...)
			f = Implies(guard, inner.Args[0])
		}
		return boolVal(Forall(bound, f, choosePatterns(bound, f)))
	}
	return boolVal(Exists(bv.C, f))
}

// choosePatterns picks select/uf sub-terms that mention the bound variables as triggers.
func choosePatterns(bound []*Term, body *Term) [][]*Term {
	isBound := map[*Term]bool{}
	for _, b := range bound {
		isBound[b] = true
	}
	var mentions func(t *Term) map[*Term]bool
	memo := map[*Term]map[*Term]bool{}
	mentions = func(t *Term) map[*Term]bool {
		if m, ok := memo[t]; ok {
			return m
		}
		m := map[*Term]bool{}
		if isBound[t] {
			m[t] = true
		}
		for _, a := range t.Args {
			for k := range mentions(a) {
				m[k] = true
			}
		}
		memo[t] = m
		return m
	}
	var cands []*Term
	seen := map[*Term]bool{}
	var walk func(t *Term)
	walk = func(t *Term) {
		if seen[t] {
			return
		}
		seen[t] = true
		if t.Op == "forall" || t.Op == "exists" {
			return
		}
		if (t.Op == "select" || t.Op == "uf") && len(mentions(t)) > 0 && structural(t) {
			// usable only if free of interpreted arithmetic at the top of the bound occurrence? keep simple
			cands = append(cands, t)
		}
		for _, a := range t.Args {
			walk(a)
		}
	}
	walk(body)
	if len(cands) == 0 {
		return nil
	}
	// prefer minimal candidates (not containing another candidate that covers the same vars)
	var pats [][]*Term
	covers := func(t *Term) bool { return len(mentions(t)) == len(bound) }
	for _, c := range cands {
		if !covers(c) {
			continue
		}
		minimal := true
		for _, d := range cands {
			if d != c && covers(d) && containsTerm(c, d) {
				minimal = false
				break
			}
		}
		if minimal {
			pats = append(pats, []*Term{c})
		}
		if len(pats) >= 4 {
			break
		}
	}
	if len(pats) == 0 && len(bound) > 1 {
		// multi-pattern from per-variable candidates
		var mp []*Term
		need := map[*Term]bool{}
		for _, b := range bound {
			need[b] = true
		}
		for _, c := range cands {
			useful := false
			for b := range mentions(c) {
				if need[b] {
					useful = true
				}
			}
			if useful {
				mp = append(mp, c)
				for b := range mentions(c) {
					delete(need, b)
				}
			}
			if len(need) == 0 {
				break
			}
		}
		if len(need) == 0 {
			pats = append(pats, mp)
		}
	}
	return pats
}

// structural: usable inside a trigger (no logical connectives, arithmetic or comparisons)
func structural(t *Term) bool {
	switch t.Op {
	case "bound", "const", "int", "uf", "select", "store", "fplit", "fpconst", "true", "false", "fp.add", "fp.sub", "fp.mul", "fp.div", "fp.rti", "fp.neg", "fp.abs":
	default:
		return false
	}
	for _, a := range t.Args {
		if !structural(a) {
			return false
		}
	}
	return true
}

func containsTerm(t, sub *Term) bool {
	if t == sub {
		return true
	}
	for _, a := range t.Args {
		if containsTerm(a, sub) {
			return true
		}
	}
	return false
}

func (env *Env) callExpr(e *Expr, pol int) Value {
	name := e.Name
	if name == "" && e.X != nil && e.X.Kind == "sel" && e.X.X.Kind == "ident" {
		// pkg.Func(...) or x.Method(...)
		if _, isVar := env.vars[e.X.X.Name]; !isVar {
			if p := env.findPackage(e.X.X.Name); p != nil {
				if sf, ok := env.ex.eng.contracts.Specs[e.X.Name]; ok && sf.Pkg == p.Name() {
					var args []Value
					for _, a := range e.Args {
						args = append(args, env.compile(a, 0))
					}
					return env.specCall(sf, args, pol)
				}
				return env.goCall(p, e.X.Name, nil, e)
			}
		}
	}
	if name == "" && e.X != nil && e.X.Kind == "sel" {
		recv := env.compile(e.X.X, 0)
		return env.goMethodCall(recv, e.X.Name, e)
	}
	switch name {
	case "old":
		if env.old == nil {
			cfail("old() used where no pre-state exists")
		}
		n := env.inState(env.old)
		if n.cur == nil {
			n.cur = env.st
		}
		return n.compile(e.Args[0], pol)
	case "now":
		if env.cur == nil {
			return env.compile(e.Args[0], pol)
		}
		return env.inState(env.cur).compile(e.Args[0], pol)
	case "proj":
		x := env.compile(e.Args[0], 0)
		k := env.compile(e.Args[1], 0).one()
		tt, ok := x.T.(*types.Tuple)
		if !ok || k.Op != "int" {
			cfail("%s: proj needs a tuple and a literal index", e)
		}
		idx := int(k.Int.Int64())
		off := tupleOffset(tt, idx)
		n := len(layout(tt.At(idx).Type()))
		return Value{T: tt.At(idx).Type(), C: x.C[off : off+n]}
	case "len", "cap":
		x := env.compile(e.Args[0], 0)
		switch xt := x.T.Underlying().(type) {
		case *types.Slice:
			if name == "len" {
				return intVal(x.C[2])
			}
			return intVal(x.C[3])
		case *types.Basic:
			if isString(x.T) {
				return intVal(UF("str_len", IntSort, x.one()))
			}
		case *types.Map:
			_, l, _ := mapKeys(xt)
			return intVal(Select(env.st.heap.Get(l, ArraySort(IntSort, IntSort)), x.one()))
		}
		cfail("%s: len/cap of %s", e, typeStr(x.T))
	case "forall", "forallv":
		return env.quantifier(e, pol, true)
	case "exists", "existsv":
		return env.quantifier(e, pol, false)
	case "ite":
		c := env.compile(e.Args[0], 0).one()
		a := env.compile(e.Args[1], 0)
		b := env.compile(e.Args[2], 0)
		if len(a.C) != len(b.C) {
			cfail("%s: branches differ in shape", e)
		}
		out := Value{T: a.T, C: make([]*Term, len(a.C))}
		if a.T == untypedInt || a.T == untypedNil {
			out.T = b.T
		}
		for j := range a.C {
			out.C[j] = Ite(c, a.C[j], b.C[j])
		}
		return out
	case "is":
		x := env.compile(e.Args[0], 0)
		t := env.resolveType(e.Args[1].Name)
		if _, isIface := t.Underlying().(*types.Interface); isIface {
			return boolVal(And(Not(Eq(x.one(), IntLit(0))), env.ex.eng.implementsTerm(x.one(), t)))
		}
		return boolVal(And(Not(Eq(x.one(), IntLit(0))), Eq(dyntype(x.one()), env.ex.tagOf(t))))
	case "as":
		x := env.compile(e.Args[0], 0)
		t := env.resolveType(e.Args[1].Name)
		switch t.Underlying().(type) {
		case *types.Pointer, *types.Interface, *types.Map, *types.Signature:
			return Value{T: t, C: []*Term{x.one()}, St: x.St}
		}
		if x.St != nil {
			return env.ex.readLoc(x.St, &Loc{Kind: LRef, Ref: x.one(), Keys: refKeys(t), T: t})
		}
		return env.ex.readLoc(env.st, &Loc{Kind: LRef, Ref: x.one(), Keys: refKeys(t), T: t})
	case "dyntype":
		return intVal(dyntype(env.compile(e.Args[0], 0).one()))
	case "tag":
		return intVal(env.ex.tagOf(env.resolveType(e.Args[0].Name)))
	case "zero":
		return zeroValue(env.resolveType(e.Args[0].Name))
	case "fresh":
		if env.old == nil {
			cfail("fresh() needs a pre-state")
		}
		x := env.compile(e.Args[0], 0)
		return boolVal(And(Gt(x.C[0], env.old.wm), Le(x.C[0], env.st.wm)))
	case "owned":
		// allocated by the current activation of the function under verification (since its entry)
		x := env.compile(e.Args[0], 0)
		wm := env.entryWm
		if wm == nil && env.fr != nil && env.fr.entry != nil {
			wm = env.fr.entry.wm
		}
		if wm == nil {
			return boolVal(False)
		}
		return boolVal(And(Gt(x.C[0], wm), Le(x.C[0], env.st.wm)))
	case "allocated":
		x := env.compile(e.Args[0], 0)
		return boolVal(And(Gt(x.C[0], IntLit(0)), Le(x.C[0], env.st.wm)))
	case "visited":
		// visited(k): the enclosing map range loop has already produced key k (loop invariants of `for k, v := range m`)
		if env.fr == nil || env.fr.curLoop == nil || env.fr.curLoop.mapRange == nil {
			cfail("%s: visited() is only meaningful in the invariants of a range loop over a map", e)
		}
		k := env.compile(e.Args[0], 0)
		vk, vsrt := visitedKey(env.fr.curLoop.mapRange)
		return boolVal(Select(env.st.heap.Get(vk, vsrt), k.one()))
	case "has":
		m := env.compile(e.Args[0], 0)
		k := env.compile(e.Args[1], 0)
		mt, ok := m.T.Underlying().(*types.Map)
		if !ok || mapKeySort(mt) == nil {
			cfail("%s: has() needs a map with a scalar key", e)
		}
		p, _ := env.ex.mapRead(env.st, mt, m.one(), k.one())
		return boolVal(p)
	case "store":
		a := env.compile(e.Args[0], 0)
		i := env.compile(e.Args[1], 0)
		v := env.compile(e.Args[2], 0)
		return Value{T: a.T, C: []*Term{Store(a.one(), i.one(), v.one())}}
	case "int", "int64", "uint", "byte", "rune":
		x := env.compile(e.Args[0], 0)
		if x.one().Sort == F64Sort {
			return intVal(UF("conv.f2i."+map[string]string{"int": "int", "int64": "int64"}[name], IntSort, x.one()))
		}
		if name == "uint" {
			// the program's conversion to an unsigned type wraps; the specification's does the same, so that
			// uint(e) names the key the program computes for e
			return intVal(wrapInt(x.one(), types.Typ[types.Uint], false))
		}
		return intVal(x.one())
	case "float64":
		x := env.compile(e.Args[0], 0)
		if x.one().Sort == IntSort {
			return Value{T: types.Typ[types.Float64], C: []*Term{UF("conv.i2f", F64Sort, x.one())}}
		}
		return x
	case "isNaN":
		return boolVal(mk("fp.isNaN", BoolSort, env.compile(e.Args[0], 0).one()))
	case "isInf":
		return boolVal(mk("fp.isInfinite", BoolSort, env.compile(e.Args[0], 0).one()))
	case "wrap64":
		return intVal(wrapInt(env.compile(e.Args[0], 0).one(), types.Typ[types.Int64], false))
	case "min", "max":
		a := env.compile(e.Args[0], 0).one()
		b := env.compile(e.Args[1], 0).one()
		if name == "min" {
			return intVal(Ite(Le(a, b), a, b))
		}
		return intVal(Ite(Ge(a, b), a, b))
	case "same":
		// identity of values (for floats: the same datum, so NaN is the same as NaN), unlike Go's ==
		a := env.compile(e.Args[0], 0)
		b := env.compile(e.Args[1], 0)
		if len(a.C) != len(b.C) {
			cfail("%s: operands differ in shape", e)
		}
		var cs []*Term
		for j := range a.C {
			if a.C[j].Sort != b.C[j].Sort {
				cfail("%s: operands differ in sort", e)
			}
			cs = append(cs, Eq(a.C[j], b.C[j]))
		}
		return boolVal(And(cs...))
	case "base":
		// identity of the backing array of a slice (or of any reference)
		x := env.compile(e.Args[0], 0)
		return intVal(x.C[0])
	case "sameslice":
		a := env.compile(e.Args[0], 0)
		b := env.compile(e.Args[1], 0)
		return boolVal(valuesEqual(a, b))
	}
	if sf, ok := env.ex.eng.contracts.Specs[name]; ok {
		var args []Value
		for _, a := range e.Args {
			args = append(args, env.compile(a, 0))
		}
		return env.specCall(sf, args, pol)
	}
	if name != "" && env.pkg != nil {
		return env.goCall(env.pkg, name, nil, e)
	}
	cfail("unknown function %s", e)
	return Value{}
}

func (env *Env) specCall(sf *SpecFunc, args []Value, pol int) Value {
	if len(args) != len(sf.Params) {
		cfail("spec %s expects %d arguments", sf.Name, len(sf.Params))
	}
	eng := env.ex.eng
	specPkg := eng.pkgByName[sf.Pkg]
	if sf.Body != nil && sf.Opaque && !env.ex.reveal[sf.Name] {
		return env.opaqueCall(sf, args, specPkg)
	}
	if sf.Body != nil {
		if env.depth > 20 {
			cfail("spec %s: expansion too deep (recursive definitions must be uninterpreted with axioms)", sf.Name)
		}
		inner := &Env{ex: env.ex, vars: map[string]Value{}, st: env.st, old: env.old, pkg: specPkg, depth: env.depth + 1}
		for i, p := range sf.Params {
			pt, err := eng.parseType(p.Type, specPkg)
			if err != nil {
				cfail("spec %s: %v", sf.Name, err)
			}
			a := args[i]
			if len(a.C) != len(layout(pt)) {
				cfail("spec %s: argument %d has the wrong shape (%s for %s)", sf.Name, i, typeStr(a.T), p.Type)
			}
			a.T = pt
			inner.vars[p.Name] = a
		}
		v := inner.compile(sf.Body, pol)
		if sf.Ret != "" {
			rt, err := eng.parseType(sf.Ret, specPkg)
			if err == nil && len(layout(rt)) == len(v.C) {
				v.T = rt
			}
		}
		return v
	}
	rt, err := eng.parseType(sf.Ret, specPkg)
	if err != nil {
		cfail("spec %s: %v", sf.Name, err)
	}
	var flat []*Term
	for i, a := range args {
		pt, err := eng.parseType(sf.Params[i].Type, specPkg)
		if err != nil {
			cfail("spec %s: %v", sf.Name, err)
		}
		if len(a.C) != len(layout(pt)) {
			cfail("spec %s: argument %d has the wrong shape (%s for %s)", sf.Name, i, typeStr(a.T), sf.Params[i].Type)
		}
		for j, c := range layout(pt) {
			if a.C[j].Sort != c.Sort {
				cfail("spec %s: argument %d has sort %s, expected %s", sf.Name, i, a.C[j].Sort, c.Sort)
			}
		}
		flat = append(flat, a.C...)
	}
	for _, rk := range sf.Reads {
		keys := []string{rk}
		if strings.HasPrefix(rk, "ghost(") && strings.HasSuffix(rk, ")") {
			g, ok := eng.contracts.Ghosts[rk[6:len(rk)-1]]
			if !ok {
				cfail("spec %s: reads %s: no such ghost variable", sf.Name, rk)
			}
			keys = []string{regKey("GH:"+g.Name, eng.ghostSort(g))}
		} else if strings.HasPrefix(rk, "map(") && strings.HasSuffix(rk, ")") {
			// the contents (domain and values) of every map of that type
			mt, err := eng.parseType(rk[4:len(rk)-1], specPkg)
			if err != nil {
				cfail("spec %s: reads %s: %v", sf.Name, rk, err)
			}
			m, ok := mt.Underlying().(*types.Map)
			if !ok {
				cfail("spec %s: reads %s: not a map type", sf.Name, rk)
			}
			d, _, vs := mapKeys(m)
			keys = append([]string{d}, vs...)
		} else if strings.HasPrefix(rk, "fields(") && strings.HasSuffix(rk, ")") {
			// every field of every object of that struct type
			ft, err := eng.parseType(rk[7:len(rk)-1], specPkg)
			if err != nil {
				cfail("spec %s: reads %s: %v", sf.Name, rk, err)
			}
			if _, ok := ft.Underlying().(*types.Struct); !ok {
				cfail("spec %s: reads %s: not a struct type", sf.Name, rk)
			}
			keys = refKeys(ft)
		} else if strings.HasPrefix(rk, "elems(") && strings.HasSuffix(rk, ")") {
			// elems(p) for a slice parameter p: only the backing array of p
			isParam := false
			for i, p := range sf.Params {
				if p.Name == rk[6:len(rk)-1] {
					sl, ok := args[i].T.Underlying().(*types.Slice)
					if !ok {
						pt, _ := eng.parseType(p.Type, specPkg)
						sl, ok = pt.Underlying().(*types.Slice)
					}
					if !ok {
						cfail("spec %s: reads %s: parameter is not a slice", sf.Name, rk)
					}
					for _, k := range elemKeys(sl.Elem()) {
						flat = append(flat, Select(env.st.heap.Get(k, keySortReg[k]), args[i].C[0]))
					}
					isParam = true
				}
			}
			if isParam {
				continue
			}
			et, err := eng.parseType(rk[6:len(rk)-1], specPkg)
			if err != nil {
				cfail("spec %s: reads %s: %v", sf.Name, rk, err)
			}
			keys = elemKeys(et)
		}
		for _, k := range keys {
			srt, ok := keySortReg[k]
			if !ok {
				cfail("spec %s: unknown heap key %s in reads clause", sf.Name, k)
			}
			flat = append(flat, env.st.heap.Get(k, srt))
		}
	}
	rl := layout(rt)
	out := Value{T: rt, C: make([]*Term, len(rl))}
	for j, c := range rl {
		out.C[j] = UF("spec."+sf.Name+c.Suffix, c.Sort, flat...)
		// references and lengths denoted by specification functions are non-negative by convention
		if !out.C[j].open {
			switch c.Kind {
			case "ref", "sbase", "slen", "soff":
				env.ex.assume(True, Ge(out.C[j], IntLit(0)))
			case "int":
				env.ex.assume(True, inRange(out.C[j], c.GoT))
			}
		}
	}
	return out
}

// opaqueCall: the spec function as an uninterpreted function of its arguments and of the heap arrays its
// body reads (its footprint), so that it is stable across states that leave the footprint untouched.
func (env *Env) opaqueCall(sf *SpecFunc, args []Value, specPkg *types.Package) Value {
	eng := env.ex.eng
	if !sf.footOK {
		sf.footOK = true
		sf.foot = eng.specFootprint(sf)
	}
	var flat []*Term
	for i, a := range args {
		pt, err := eng.parseType(sf.Params[i].Type, specPkg)
		if err != nil {
			cfail("spec %s: %v", sf.Name, err)
		}
		if len(a.C) != len(layout(pt)) {
			cfail("spec %s: argument %d has the wrong shape (%s for %s)", sf.Name, i, typeStr(a.T), sf.Params[i].Type)
		}
		flat = append(flat, a.C...)
	}
	// footprint: the heap values the (fully unfolded) body reads for these arguments. A read at a location fixed by
	// the arguments is passed as that value; a read under a quantifier (location depends on a bound variable) is
	// passed as the whole array of its key. The function is thus stable under writes elsewhere.
	reads := env.bodyReads(sf, args, specPkg)
	wholeSeen := map[string]bool{}
	argBounds := map[*Term]bool{}
	for _, a := range flat {
		collectBounds(a, argBounds, map[*Term]bool{})
	}
	for _, rd := range reads {
		if strings.HasPrefix(rd.key, "G:") && eng.immutableGlobal[rd.key] {
			continue
		}
		if rd.term != nil && boundsWithin(rd.term, argBounds) {
			// location fixed by the arguments (which may themselves mention variables bound outside this call)
			flat = append(flat, rd.term)
			continue
		}
		if !wholeSeen[rd.key] {
			wholeSeen[rd.key] = true
			flat = append(flat, env.st.heap.Get(rd.key, keySortReg[rd.key]))
		}
	}
	rt, err := eng.parseType(sf.Ret, specPkg)
	if err != nil {
		cfail("spec %s: %v", sf.Name, err)
	}
	rl := layout(rt)
	out := Value{T: rt, C: make([]*Term, len(rl))}
	for j, c := range rl {
		out.C[j] = UF("spec."+sf.Name+c.Suffix, c.Sort, flat...)
	}
	return out
}

// collectBounds gathers the bound variables occurring free in t.
func collectBounds(t *Term, out map[*Term]bool, seen map[*Term]bool) {
	if seen[t] || !t.open {
		return
	}
	seen[t] = true
	if t.Op == "bound" {
		out[t] = true
		return
	}
	for _, a := range t.Args {
		collectBounds(a, out, seen)
	}
}

func boundsWithin(t *Term, allowed map[*Term]bool) bool {
	if !t.open {
		return true
	}
	bs := map[*Term]bool{}
	collectBounds(t, bs, map[*Term]bool{})
	for b := range bs {
		if !allowed[b] {
			return false
		}
	}
	return true
}

type heapRead struct {
	key  string
	term *Term
}

// bodyReads compiles the unfolded body of sf for args in the current state and returns its heap reads in order.
func (env *Env) bodyReads(sf *SpecFunc, args []Value, specPkg *types.Package) []heapRead {
	ex := env.ex
	savedLog, savedReveal, savedSpec := ex.readLog, ex.reveal, ex.inSpec
	var log []heapRead
	ex.readLog = &log
	ex.reveal = ex.eng.allSpecsRevealed()
	ex.inSpec++
	savedAssumes := len(ex.assumes)
	defer func() {
		ex.readLog, ex.reveal, ex.inSpec = savedLog, savedReveal, savedSpec
		ex.assumes = ex.assumes[:savedAssumes]
	}()
	inner := &Env{ex: ex, vars: map[string]Value{}, st: env.st, old: env.old, pkg: specPkg, depth: env.depth + 1, binders: env.binders}
	for i, p := range sf.Params {
		pt, err := ex.eng.parseType(p.Type, specPkg)
		if err != nil {
			cfail("spec %s: %v", sf.Name, err)
		}
		a := args[i]
		a.T = pt
		inner.vars[p.Name] = a
	}
	inner.compile(sf.Body, 0)
	return log
}

// goCall evaluates a call of a real (side-effect free, loop-free) Go function symbolically on a copy of the state.
func (env *Env) goCall(pkg *types.Package, name string, recv *Value, e *Expr) Value {
	sp := env.ex.eng.prog.Package(pkg)
	if sp == nil {
		cfail("%s: package %s not loaded", e, pkg.Name())
	}
	fn := sp.Func(name)
	if fn == nil {
		cfail("%s: unknown function %s.%s", e, pkg.Name(), name)
	}
	var args []Value
	for _, a := range e.Args {
		args = append(args, env.compile(a, 0))
	}
	return env.pureInline(fn, args, e)
}

func (env *Env) goMethodCall(recv Value, name string, e *Expr) Value {
	eng := env.ex.eng
	ms := eng.prog.MethodSets.MethodSet(recv.T)
	sel := ms.Lookup(nil, name)
	if sel == nil && env.pkg != nil {
		sel = ms.Lookup(env.pkg, name)
	}
	if sel == nil {
		for i := 0; i < ms.Len(); i++ {
			if ms.At(i).Obj().Name() == name {
				sel = ms.At(i)
			}
		}
	}
	if sel == nil {
		cfail("%s: type %s has no method %s", e, typeStr(recv.T), name)
	}
	fn := eng.prog.MethodValue(sel)
	if fn == nil {
		cfail("%s: abstract method %s", e, name)
	}
	args := []Value{recv}
	for _, a := range e.Args {
		args = append(args, env.compile(a, 0))
	}
	return env.pureInline(fn, args, e)
}

func (env *Env) pureInline(fn *ssa.Function, args []Value, e *Expr) Value {
	ex := env.ex
	if len(args) != len(fn.Params) {
		cfail("%s: %s expects %d arguments", e, fn.Name(), len(fn.Params))
	}
	for i, p := range fn.Params {
		a := args[i]
		if a.T == untypedInt || a.T == untypedNil {
			a.T = p.Type()
			args[i] = a
		}
		if len(a.C) != len(layout(p.Type())) && a.Loc == nil {
			cfail("%s: argument %d of %s has the wrong shape", e, i, fn.Name())
		}
	}
	base := env.st
	for _, a := range args {
		if a.St != nil {
			base = a.St
		}
	}
	key := specCallKey(fn, args, base)
	if m, ok := ex.specMemo[key]; ok {
		return m
	}
	st := base.clone()
	savedObl := len(ex.obligations)
	savedSafety := ex.safety
	ex.safety = false
	ex.inSpec++
	fr := &Frame{fn: nil, regs: map[ssa.Value]Value{}, params: map[*ssa.Parameter]Value{}, freeVars: map[*ssa.FreeVar]Value{}, callOrd: map[string]int{}, depth: 0, entry: st}
	saved := struct{ a, i, u map[string]bool }{ex.abstracted, ex.inlined, ex.usedContr}
	ex.abstracted, ex.inlined, ex.usedContr = map[string]bool{}, map[string]bool{}, map[string]bool{}
	pushFreshScope(key)
	res := ex.callFunc(fr, st, fn, nil, args, nil, "spec")
	popFreshScope()
	ex.abstracted, ex.inlined, ex.usedContr = saved.a, saved.i, saved.u
	ex.inSpec--
	ex.safety = savedSafety
	ex.obligations = ex.obligations[:savedObl]
	// objects created by the call live in st: selectors applied to the result read them there
	res.St = st
	ex.specMemo[key] = res
	return res
}

// specCallKey identifies a specification-level call: same function, same argument terms, same heap.
func specCallKey(fn *ssa.Function, args []Value, st *State) string {
	var sb strings.Builder
	sb.WriteString(fn.String())
	for _, a := range args {
		sb.WriteByte('|')
		for _, c := range a.C {
			fmt.Fprintf(&sb, "%x,", c.shash)
		}
	}
	fmt.Fprintf(&sb, "|wm%x|b%d", st.wm.shash, st.heap.base.id)
	ks := make([]string, 0, len(st.heap.m))
	for k := range st.heap.m {
		ks = append(ks, k)
	}
	sort.Strings(ks)
	for _, k := range ks {
		fmt.Fprintf(&sb, "|%s=%x", k, st.heap.m[k].shash)
	}
	h := fnv.New64a()
	h.Write([]byte(sb.String()))
	return fmt.Sprintf("%s.%x", fn.Name(), h.Sum64())
}
