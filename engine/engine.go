package main

// Engine: loads /repo (current working tree) with go/packages + go/ssa, reads contracts, runs functions.

import (
	"fmt"
	"go/token"
	"go/types"
	"hash/fnv"
	"os"
	"path/filepath"
	"sort"
	"strings"

	"golang.org/x/tools/go/packages"
	"golang.org/x/tools/go/ssa"
	"golang.org/x/tools/go/ssa/ssautil"
)

type Engine struct {
	repo               string
	verifDir           string
	fset               *token.FileSet
	prog               *ssa.Program
	pkgs               []*packages.Package
	pkgByName          map[string]*types.Package
	funcByKey          map[string]*ssa.Function
	contracts          *ContractSet
	cfgCache           map[*ssa.Function]*cfgInfo
	wa                 *writeAnalyzer
	tags               map[string]int
	tagNames           []string
	tagOwner           map[int]string
	funcOwner          map[int]*ssa.Function
	funcIDs            map[*ssa.Function]int
	bindingErrors      []string
	implCache          map[string][]*ssa.Function
	srcCache           map[string][]string
	namedTypes         []*types.Named
	notes              []string
	immutableGlobal    map[string]bool     // heap keys of package variables written only by package initialisation
	writtenOutsideInit map[string][]string // heap key -> functions (other than init) storing to it
}

const repoPrefix = "github.com/mithrandie/csvq"

func NewEngine(repo, verifDir string) (*Engine, error) {
	eng := &Engine{repo: repo, verifDir: verifDir, pkgByName: map[string]*types.Package{}, funcByKey: map[string]*ssa.Function{},
		cfgCache: map[*ssa.Function]*cfgInfo{}, tags: map[string]int{}, funcIDs: map[*ssa.Function]int{}, implCache: map[string][]*ssa.Function{}, srcCache: map[string][]string{}}
	eng.wa = &writeAnalyzer{eng: eng, memo: map[*ssa.Function]*WriteSet{}, stack: map[*ssa.Function]bool{}}
	// contracts: the files in /repo are the source of truth; the mirror in /verif/contracts is used when one is missing
	overlay := map[string][]byte{}
	cs := newContractSet()
	mirror := filepath.Join(verifDir, "contracts")
	entries, _ := os.ReadDir(mirror)
	for _, e := range entries {
		if e.IsDir() || !strings.HasSuffix(e.Name(), ".go") {
			continue
		}
		pkg := strings.TrimSuffix(e.Name(), ".go")
		repoName := "zz_verif_contracts.go"
		if i := strings.Index(pkg, "_"); i > 0 {
			// <pkg>_<part>.go: a further contract file of the same package
			repoName = "zz_verif_contracts_" + pkg[i+1:] + ".go"
			pkg = pkg[:i]
		}
		repoFile := filepath.Join(repo, "lib", pkg, repoName)
		src := repoFile
		if _, err := os.Stat(repoFile); err != nil || os.Getenv("CSVQVC_CONTRACTS") == "mirror" {
			src = filepath.Join(mirror, e.Name())
			data, _ := os.ReadFile(src)
			overlay[repoFile] = data
			eng.notes = append(eng.notes, "CONTRACTS-FROM-MIRROR "+pkg)
		}
		if err := cs.parseFile(src, pkg); err != nil {
			return nil, err
		}
	}
	deps, _ := filepath.Glob(filepath.Join(mirror, "deps", "*.contracts"))
	sort.Strings(deps)
	for _, d := range deps {
		if err := cs.parseFile(d, ""); err != nil {
			return nil, err
		}
	}
	eng.contracts = cs
	eng.checkGhostFrames()
	cfg := &packages.Config{Mode: packages.LoadAllSyntax, Dir: repo, BuildFlags: []string{"-tags=verif"}, Overlay: overlay,
		Env: append(os.Environ(), "GOFLAGS=-mod=mod", "GOPROXY=off", "GOSUMDB=off", "GOTOOLCHAIN=local")}
	pkgs, err := packages.Load(cfg, "./lib/...")
	if err != nil {
		return nil, err
	}
	nerr := 0
	packages.Visit(pkgs, nil, func(p *packages.Package) {
		for _, e := range p.Errors {
			if strings.HasPrefix(p.PkgPath, repoPrefix) {
				fmt.Fprintf(os.Stderr, "load error: %s: %v\n", p.PkgPath, e)
				nerr++
			}
		}
	})
	if nerr > 0 {
		return nil, fmt.Errorf("/repo does not type-check (%d errors)", nerr)
	}
	eng.pkgs = pkgs
	prog, _ := ssautil.AllPackages(pkgs, ssa.NaiveForm|ssa.GlobalDebug)
	prog.Build()
	eng.prog = prog
	eng.fset = prog.Fset
	for _, p := range prog.AllPackages() {
		name := p.Pkg.Name()
		if old, ok := eng.pkgByName[name]; ok {
			// prefer repo packages on name clashes
			if strings.HasPrefix(old.Path(), repoPrefix) && !strings.HasPrefix(p.Pkg.Path(), repoPrefix) {
				continue
			}
		}
		eng.pkgByName[name] = p.Pkg
		for _, m := range p.Members {
			if t, ok := m.(*ssa.Type); ok {
				if n, ok := t.Type().(*types.Named); ok {
					eng.namedTypes = append(eng.namedTypes, n)
				}
			}
		}
	}
	sort.Slice(eng.namedTypes, func(i, j int) bool { return typeStr(eng.namedTypes[i]) < typeStr(eng.namedTypes[j]) })
	eng.scanWrites()
	for fn := range ssautil.AllFunctions(prog) {
		key := shortName(fn.String())
		if old, ok := eng.funcByKey[key]; ok && old.Synthetic == "" {
			continue
		}
		eng.funcByKey[key] = fn
	}
	// axioms and lemma statements are compiled once, before any function, so that their bound-variable names never
	// coincide with those of a function's obligations (resetNaming starts those at a high fixed base)
	eng.axiomTerms()
	return eng, nil
}

func pkgPathOf(fn *ssa.Function) string {
	for f := fn; f != nil; f = f.Parent() {
		if f.Pkg != nil {
			return f.Pkg.Pkg.Path()
		}
	}
	if o := fn.Object(); o != nil && o.Pkg() != nil {
		return o.Pkg().Path()
	}
	if fn.Signature.Recv() != nil {
		if n, ok := derefType(fn.Signature.Recv().Type()).(*types.Named); ok && n.Obj().Pkg() != nil {
			return n.Obj().Pkg().Path()
		}
	}
	return ""
}

func (eng *Engine) isRepoFunc(fn *ssa.Function) bool {
	p := pkgPathOf(fn)
	return strings.HasPrefix(p, repoPrefix) || p == "github.com/mithrandie/ternary"
}

func (eng *Engine) contractFor(fn *ssa.Function) *FuncContract {
	return eng.contracts.Funcs[shortName(fn.String())]
}

func (eng *Engine) contractForInvoke(c *ssa.CallCommon) *FuncContract {
	return eng.contracts.Funcs[shortName(c.Method.FullName())]
}

// tagID: a number for a dynamic type that depends on the type alone (a stable hash, collisions resolved by probing),
// so that the text of an obligation does not depend on which functions were verified before it.
func (eng *Engine) tagID(t types.Type) int {
	k := typeStr(t)
	if id, ok := eng.tags[k]; ok {
		return id
	}
	h := fnv.New32a()
	h.Write([]byte(k))
	id := int(h.Sum32()%1000000007) + 1
	if eng.tagOwner == nil {
		eng.tagOwner = map[int]string{}
	}
	for {
		if o, used := eng.tagOwner[id]; !used || o == k {
			break
		}
		id++
	}
	eng.tagOwner[id] = k
	eng.tags[k] = id
	eng.tagNames = append(eng.tagNames, k)
	return id
}

// resetNaming: every function (and lemma) is verified with the same fresh-name counters, so that its obligations are
// the same text whatever was verified before it in the same process (solver behaviour depends on symbol names).
func resetNaming() {
	TS.fresh = map[string]int{"bv": 1000000}
	heapBaseCounter = 0
	heapConsts = map[*Term]heapConstInfo{}
}

func (eng *Engine) funcID(f *ssa.Function) int {
	if id, ok := eng.funcIDs[f]; ok {
		return id
	}
	h := fnv.New32a()
	h.Write([]byte(f.String()))
	id := int(h.Sum32()%1000000007) + 1
	if eng.funcOwner == nil {
		eng.funcOwner = map[int]*ssa.Function{}
	}
	for {
		if o, used := eng.funcOwner[id]; !used || o == f {
			break
		}
		id++
	}
	eng.funcOwner[id] = f
	eng.funcIDs[f] = id
	return id
}

// implementors of an interface method among the named types of the repository (nil: unknown/open set).
func (eng *Engine) implementors(recvT types.Type, m *types.Func) []*ssa.Function {
	key := typeStr(recvT) + "." + m.Name()
	if r, ok := eng.implCache[key]; ok {
		return r
	}
	var out []*ssa.Function
	named, ok := recvT.(*types.Named)
	if !ok || named.Obj().Pkg() == nil || !strings.HasPrefix(named.Obj().Pkg().Path(), repoPrefix) {
		eng.implCache[key] = nil
		return nil
	}
	iface := recvT.Underlying().(*types.Interface)
	for _, n := range eng.namedTypes {
		if _, isIface := n.Underlying().(*types.Interface); isIface {
			continue
		}
		if n.TypeParams().Len() > 0 {
			continue
		}
		for _, t := range []types.Type{n, types.NewPointer(n)} {
			if types.Implements(t, iface) {
				sel := eng.prog.MethodSets.MethodSet(t).Lookup(m.Pkg(), m.Name())
				if sel != nil {
					if f := eng.prog.MethodValue(sel); f != nil {
						out = append(out, f)
					}
				}
				break
			}
		}
	}
	eng.implCache[key] = out
	return out
}

func (eng *Engine) implementsTerm(ref *Term, iface types.Type) *Term {
	named, ok := iface.(*types.Named)
	if ok && named.Obj().Pkg() != nil && strings.HasPrefix(named.Obj().Pkg().Path(), repoPrefix) {
		it := iface.Underlying().(*types.Interface)
		var alts []*Term
		for _, n := range eng.namedTypes {
			if _, isIface := n.Underlying().(*types.Interface); isIface || n.TypeParams().Len() > 0 {
				continue
			}
			for _, t := range []types.Type{n, types.NewPointer(n)} {
				if types.Implements(t, it) {
					alts = append(alts, Eq(dyntype(ref), IntLit(int64(eng.tagID(t)))))
					break
				}
			}
		}
		return Or(alts...)
	}
	return UF("implements."+typeStr(iface), BoolSort, dyntype(ref))
}

func (eng *Engine) parseType(name string, pkg *types.Package) (types.Type, error) {
	name = strings.TrimSpace(name)
	switch {
	case strings.HasPrefix(name, "*"):
		t, err := eng.parseType(name[1:], pkg)
		if err != nil {
			return nil, err
		}
		return types.NewPointer(t), nil
	case strings.HasPrefix(name, "[]"):
		t, err := eng.parseType(name[2:], pkg)
		if err != nil {
			return nil, err
		}
		return types.NewSlice(t), nil
	case strings.HasPrefix(name, "map["):
		depth := 0
		for i, c := range name {
			if c == '[' {
				depth++
			} else if c == ']' {
				depth--
				if depth == 0 {
					k, err := eng.parseType(name[4:i], pkg)
					if err != nil {
						return nil, err
					}
					v, err := eng.parseType(name[i+1:], pkg)
					if err != nil {
						return nil, err
					}
					return types.NewMap(k, v), nil
				}
			}
		}
	}
	if i := strings.Index(name, "."); i > 0 {
		p := eng.pkgByName[name[:i]]
		if pkg != nil {
			for _, imp := range pkg.Imports() {
				if imp.Name() == name[:i] {
					p = imp
				}
			}
			if pkg.Name() == name[:i] {
				p = pkg
			}
		}
		if p == nil {
			return nil, fmt.Errorf("unknown package %s in type %s", name[:i], name)
		}
		o := p.Scope().Lookup(name[i+1:])
		if tn, ok := o.(*types.TypeName); ok {
			return tn.Type(), nil
		}
		return nil, fmt.Errorf("unknown type %s", name)
	}
	if pkg != nil {
		if tn, ok := pkg.Scope().Lookup(name).(*types.TypeName); ok {
			return tn.Type(), nil
		}
	}
	if tn, ok := types.Universe.Lookup(name).(*types.TypeName); ok {
		return tn.Type(), nil
	}
	return nil, fmt.Errorf("unknown type %s", name)
}

func (eng *Engine) ghostSort(g *GhostVar) *Sort {
	return eng.specSort(g.Type, eng.pkgByName[g.Pkg])
}

func (eng *Engine) specSort(ts string, pkg *types.Package) *Sort {
	if strings.HasPrefix(ts, "map[") {
		t, err := eng.parseType(ts, pkg)
		if err == nil {
			mt := t.(*types.Map)
			return ArraySort(layout(mt.Key())[0].Sort, layout(mt.Elem())[0].Sort)
		}
	}
	t, err := eng.parseType(ts, pkg)
	if err != nil {
		panic("ghost/spec type: " + err.Error())
	}
	return layout(t)[0].Sort
}

func (eng *Engine) ghostType(g *GhostVar) types.Type {
	if strings.HasPrefix(g.Type, "map[") {
		return types.Typ[types.Invalid]
	}
	t, err := eng.parseType(g.Type, eng.pkgByName[g.Pkg])
	if err != nil {
		panic(err)
	}
	return t
}

func (eng *Engine) sortGoType(s *Sort) types.Type {
	switch s.Kind {
	case SInt:
		return types.Typ[types.Int]
	case SBool:
		return types.Typ[types.Bool]
	case SStr:
		return types.Typ[types.String]
	case SF64:
		return types.Typ[types.Float64]
	}
	return types.Typ[types.Invalid]
}

func (eng *Engine) sourceSnippet(pos token.Pos) string {
	p := eng.fset.Position(pos)
	lines, ok := eng.srcCache[p.Filename]
	if !ok {
		data, err := os.ReadFile(p.Filename)
		if err == nil {
			lines = strings.Split(string(data), "\n")
		}
		eng.srcCache[p.Filename] = lines
	}
	if p.Line-1 < len(lines) && p.Line >= 1 {
		s := strings.TrimSpace(lines[p.Line-1])
		s = strings.Join(strings.Fields(s), " ")
		if len(s) > 60 {
			s = s[:60]
		}
		return s
	}
	return "?"
}

// bodyWrites: static write set of the body regardless of a declared modifies clause.
func (wa *writeAnalyzer) bodyWrites(fn *ssa.Function) *WriteSet {
	w := newWriteSet()
	if fn.Blocks == nil {
		return w
	}
	if wa.stack[fn] {
		w.setAll("recursion")
		return w
	}
	wa.stack[fn] = true
	for _, b := range fn.Blocks {
		wa.instrs(b.Instrs, w, fn)
	}
	delete(wa.stack, fn)
	w.locals = map[*ssa.Alloc]bool{}
	return w
}

// modifiesKeys evaluates a modifies clause on a scratch state to learn which heap keys it names.
func (eng *Engine) modifiesKeys(c *FuncContract, fn *ssa.Function) *WriteSet {
	ex := newExec(eng, fn, c)
	ex.inSpec = 1 // no assumptions, no obligations
	st := &State{pc: True, locals: map[*ssa.Alloc][]*Term{}, heap: newHeap(Const("wm.scratch", IntSort)), wm: Const("wm.scratch", IntSort)}
	base := st.heap.base
	vars := map[string]Value{}
	for _, p := range fn.Params {
		vars[p.Name()] = freshValue("scratch."+p.Name(), p.Type())
	}
	env := &Env{ex: ex, vars: vars, st: st, old: st, pkg: eng.pkgByName[c.Pkg]}
	nErr := len(eng.bindingErrors)
	ex.havocModifies(st, c, env, nil)
	if len(eng.bindingErrors) > nErr {
		// the clause names things only visible inside the function (captured variables of a closure, locals):
		// fall back on the static write set of the body
		eng.bindingErrors = eng.bindingErrors[:nErr]
		if fn.Blocks != nil {
			return eng.wa.bodyWrites(fn)
		}
		w := newWriteSet()
		w.setAll("modifies clause of " + c.Key + " cannot be evaluated outside the function")
		return w
	}
	w := newWriteSet()
	if st.heap.base != base {
		w.setAll("modifies * of " + c.Key)
		w.except = append([]string{}, st.heap.base.except...)
	}
	for k := range st.heap.m {
		w.keys[k] = true
	}
	for _, gs := range c.GhostSets {
		if g, ok := eng.contracts.Ghosts[gs.Var]; ok {
			w.keys[regKey("GH:"+gs.Var, eng.ghostSort(g))] = true
		}
	}
	w.alloc = true
	return w
}

func (eng *Engine) modifiesKeysIface(c *FuncContract) *WriteSet {
	w := newWriteSet()
	for _, mt := range c.Modifies {
		if mt.All {
			w.setAll("modifies * of " + c.Key)
		} else if mt.Key != "" {
			w.keys[mt.Key] = true
		} else {
			// targets relative to an interface receiver cannot be resolved statically
			w.setAll("modifies clause of interface method " + c.Key)
		}
	}
	w.alloc = true
	return w
}

// scanWrites records, for every heap key, the repository functions other than package initialisers that
// store to it, and which package-level variables are never written (or address-taken) after initialisation.
func (eng *Engine) scanWrites() {
	eng.immutableGlobal = map[string]bool{}
	eng.writtenOutsideInit = map[string][]string{}
	mutable := map[*ssa.Global]bool{}
	var globals []*ssa.Global
	for _, p := range eng.prog.AllPackages() {
		path := p.Pkg.Path()
		if !strings.HasPrefix(path, repoPrefix) && path != "github.com/mithrandie/ternary" {
			continue
		}
		for _, m := range p.Members {
			if g, ok := m.(*ssa.Global); ok {
				globals = append(globals, g)
			}
		}
	}
	for fn := range ssautil.AllFunctions(eng.prog) {
		if !eng.isRepoFunc(fn) || fn.Blocks == nil {
			continue
		}
		isInit := fn.Name() == "init" || strings.HasPrefix(fn.Name(), "init#") || (fn.Parent() != nil && (fn.Parent().Name() == "init" || strings.HasPrefix(fn.Parent().Name(), "init#")))
		for _, b := range fn.Blocks {
			for _, in := range b.Instrs {
				// any use of a global other than as the address of a load/store makes it mutable
				for _, op := range in.Operands(nil) {
					g, ok := (*op).(*ssa.Global)
					if !ok {
						continue
					}
					switch i := in.(type) {
					case *ssa.UnOp:
						continue
					case *ssa.Store:
						if i.Addr == g && i.Val != ssa.Value(g) {
							if !isInit {
								mutable[g] = true
							}
							continue
						}
					case *ssa.DebugRef:
						continue
					}
					mutable[g] = true
				}
				if isInit {
					continue
				}
				if st, ok := in.(*ssa.Store); ok {
					l, ks := addrKeys(st.Addr)
					if l == nil {
						for _, k := range ks {
							eng.writtenOutsideInit[k] = append(eng.writtenOutsideInit[k], shortName(fn.String()))
						}
					}
				}
			}
		}
	}
	for _, g := range globals {
		if !mutable[g] {
			for _, k := range globalKeys(g) {
				eng.immutableGlobal[k] = true
			}
		}
	}
}

// invariantStable: the keys an invariant reads are written by package initialisation only.
func (eng *Engine) invariantUnstable(inv *Axiom) []string {
	ex := newExec(eng, nil, nil)
	ex.inSpec = 1
	ex.readKeys = map[string]bool{}
	wm := Const("wm.inv", IntSort)
	st := &State{pc: True, locals: map[*ssa.Alloc][]*Term{}, heap: newHeap(wm), wm: wm}
	env := &Env{ex: ex, vars: map[string]Value{}, st: st, old: st, pkg: eng.pkgByName[inv.Pkg]}
	if _, err := env.boolExpr(inv.E, false); err != nil {
		return []string{"does not compile: " + err.Error()}
	}
	var bad []string
	var keys []string
	for k := range ex.readKeys {
		keys = append(keys, k)
	}
	sort.Strings(keys)
	for _, k := range keys {
		if strings.HasPrefix(k, "G:") {
			if !eng.immutableGlobal[k] {
				bad = append(bad, k+" is written or address-taken outside package initialisation")
			}
			continue
		}
		if ws := eng.writtenOutsideInit[k]; len(ws) > 0 {
			bad = append(bad, k+" is written by "+strings.Join(dedup(ws), ", "))
		}
	}
	return bad
}

func (eng *Engine) allSpecsRevealed() map[string]bool {
	m := map[string]bool{}
	for n := range eng.contracts.Specs {
		m[n] = true
	}
	return m
}

// specFootprint: heap keys read by the (fully unfolded) body of a spec function.
func (eng *Engine) specFootprint(sf *SpecFunc) []string {
	ex := newExec(eng, nil, nil)
	ex.inSpec = 1
	ex.readKeys = map[string]bool{}
	ex.reveal = map[string]bool{}
	for n := range eng.contracts.Specs {
		ex.reveal[n] = true
	}
	wm := Const("wm.foot", IntSort)
	st := &State{pc: True, locals: map[*ssa.Alloc][]*Term{}, heap: newHeap(wm), wm: wm}
	pkg := eng.pkgByName[sf.Pkg]
	env := &Env{ex: ex, vars: map[string]Value{}, st: st, old: st, pkg: pkg}
	for _, p := range sf.Params {
		pt, err := eng.parseType(p.Type, pkg)
		if err != nil {
			panic("spec " + sf.Name + ": " + err.Error())
		}
		env.vars[p.Name] = freshValue("foot."+p.Name, pt)
	}
	func() {
		defer func() {
			if r := recover(); r != nil {
				if ce, ok := r.(compileErr); ok {
					eng.bindingErrors = append(eng.bindingErrors, "spec "+sf.Name+": "+ce.msg)
					return
				}
				panic(r)
			}
		}()
		env.compile(sf.Body, 0)
	}()
	var keys []string
	for k := range ex.readKeys {
		keys = append(keys, k)
	}
	sort.Strings(keys)
	return keys
}

// callersOf: repository functions with a direct call to the function with the given short name.
func (eng *Engine) callersOf(callee string) []string {
	var out []string
	for fn := range ssautil.AllFunctions(eng.prog) {
		if !eng.isRepoFunc(fn) || fn.Blocks == nil || fn.Synthetic != "" {
			continue
		}
		found := false
		for _, b := range fn.Blocks {
			for _, in := range b.Instrs {
				if c, ok := in.(ssa.CallInstruction); ok {
					if sc := c.Common().StaticCallee(); sc != nil && shortName(sc.String()) == callee {
						found = true
					}
				}
			}
		}
		if found {
			out = append(out, shortName(fn.String()))
		}
	}
	sort.Strings(out)
	return out
}

func dedup(xs []string) []string {
	seen := map[string]bool{}
	var out []string
	for _, x := range xs {
		if !seen[x] {
			seen[x] = true
			out = append(out, x)
		}
	}
	sort.Strings(out)
	return out
}

func newExec(eng *Engine, fn *ssa.Function, c *FuncContract) *Exec {
	return &Exec{hc: heapConsts, usedInv: map[string]bool{}, specMemo: map[string]Value{}, eng: eng, topFn: fn, topC: c, assumeSeen: map[int]bool{}, warnSeen: map[string]bool{}, nameCount: map[string]int{},
		abstracted: map[string]bool{}, inlined: map[string]bool{}, usedContr: map[string]bool{}, assumedTerm: map[string]bool{}, assertHit: map[int]bool{}, pointSetHit: map[int]bool{}, budget: 6000}
}

// checkGhostFrames: ghost variables survive every havoc unless a contract names them, so a contract with an explicit
// modifies clause whose postcondition speaks about the new value of a ghost variable must name that variable (otherwise
// applying the contract at a call assumes both "unchanged" and what the postcondition says: a vacuous caller).
func (eng *Engine) checkGhostFrames() {
	for _, key := range eng.contracts.Order {
		c := eng.contracts.Funcs[key]
		if c == nil || !c.HasMod {
			continue
		}
		named := map[string]bool{}
		for _, gs := range c.GhostSets {
			named[gs.Var] = true
		}
		for _, mt := range c.Modifies {
			if mt.E != nil && mt.E.Kind == "ident" {
				named[mt.E.Name] = true
			}
			if strings.HasPrefix(mt.Key, "GH:") {
				named[strings.TrimPrefix(mt.Key, "GH:")] = true
			}
		}
		seen := map[string]bool{}
		for _, en := range c.Ensures {
			now, old := map[string]bool{}, map[string]bool{}
			var walk func(e *Expr, inOld bool)
			walk = func(e *Expr, inOld bool) {
				if e == nil {
					return
				}
				if e.Kind == "ident" {
					if _, ok := eng.contracts.Ghosts[e.Name]; ok {
						if inOld {
							old[e.Name] = true
						} else {
							now[e.Name] = true
						}
					}
				}
				o := inOld || (e.Kind == "call" && ((e.X != nil && e.X.Kind == "ident" && e.X.Name == "old") || e.Name == "old"))
				walk(e.X, o)
				for _, a := range e.Args {
					walk(a, o)
				}
			}
			walk(en.E, false)
			// a clause relating the new value of a ghost variable to its old value
			for g := range now {
				if old[g] && !named[g] && !seen[g] {
					seen[g] = true
					eng.bindingErrors = append(eng.bindingErrors, fmt.Sprintf("%s: a postcondition relates ghost variable %s to its old value but modifies does not name it (callers would assume it unchanged as well)", key, g))
				}
			}
		}
	}
}
