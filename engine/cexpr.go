package main

// Contract expression language: lexer + Pratt parser. Go expression syntax plus
//   A ==> B, A <==> B, old(e), forall(i, lo, hi, body), exists(i, lo, hi, body), forallv(x, T, body),
//   is(x, T), as(x, T), ite(c, a, b), fresh(x), has(m, k), result / result0..n.

import (
	"fmt"
	"strings"
	"unicode"
)

type Expr struct {
	Kind string // ident int float str bin un call index slice sel type
	Op   string
	Name string
	X    *Expr
	Args []*Expr
	Src  string
}

type tok struct {
	k string // id int float str op eof
	s string
}

func lexExpr(src string) ([]tok, error) {
	var out []tok
	i := 0
	for i < len(src) {
		c := src[i]
		switch {
		case c == ' ' || c == '\t' || c == '\n' || c == '\r':
			i++
		case unicode.IsLetter(rune(c)) || c == '_' || c == '$':
			j := i + 1
			for j < len(src) && (unicode.IsLetter(rune(src[j])) || unicode.IsDigit(rune(src[j])) || src[j] == '_' || src[j] == '$' || src[j] == '@') {
				j++
			}
			out = append(out, tok{"id", src[i:j]})
			i = j
		case c >= '0' && c <= '9':
			j := i + 1
			isF := false
			for j < len(src) && ((src[j] >= '0' && src[j] <= '9') || src[j] == '.' || src[j] == 'e' || src[j] == 'x' || (src[j] >= 'a' && src[j] <= 'f' && strings.HasPrefix(src[i:], "0x")) || ((src[j] == '-' || src[j] == '+') && src[j-1] == 'e')) {
				if src[j] == '.' || (src[j] == 'e' && !strings.HasPrefix(src[i:], "0x")) {
					isF = true
				}
				j++
			}
			if isF {
				out = append(out, tok{"float", src[i:j]})
			} else {
				out = append(out, tok{"int", src[i:j]})
			}
			i = j
		case c == '"':
			j := i + 1
			var sb strings.Builder
			for j < len(src) && src[j] != '"' {
				if src[j] == '\\' && j+1 < len(src) {
					j++
					switch src[j] {
					case 'n':
						sb.WriteByte('\n')
					case 't':
						sb.WriteByte('\t')
					case 'r':
						sb.WriteByte('\r')
					default:
						sb.WriteByte(src[j])
					}
				} else {
					sb.WriteByte(src[j])
				}
				j++
			}
			if j >= len(src) {
				return nil, fmt.Errorf("unterminated string in %q", src)
			}
			out = append(out, tok{"str", sb.String()})
			i = j + 1
		case c == '\'':
			// rune literal
			j := i + 1
			var r byte
			if j < len(src) && src[j] == '\\' {
				j++
				switch src[j] {
				case 'n':
					r = '\n'
				case 't':
					r = '\t'
				case 'r':
					r = '\r'
				default:
					r = src[j]
				}
			} else if j < len(src) {
				r = src[j]
			}
			j++
			if j >= len(src) || src[j] != '\'' {
				return nil, fmt.Errorf("bad rune literal in %q", src)
			}
			out = append(out, tok{"int", fmt.Sprint(int(r))})
			i = j + 1
		default:
			ops := []string{"<==>", "==>", "&&", "||", "==", "!=", "<=", ">=", "<", ">", "+", "-", "*", "/", "%", "!", "(", ")", "[", "]", ".", ",", ":"}
			matched := false
			for _, o := range ops {
				if strings.HasPrefix(src[i:], o) {
					out = append(out, tok{"op", o})
					i += len(o)
					matched = true
					break
				}
			}
			if !matched {
				return nil, fmt.Errorf("unexpected character %q in %q", c, src)
			}
		}
	}
	out = append(out, tok{"eof", ""})
	return out, nil
}

type exprParser struct {
	toks []tok
	p    int
	src  string
}

func ParseExpr(src string) (e *Expr, err error) {
	toks, err := lexExpr(src)
	if err != nil {
		return nil, err
	}
	ps := &exprParser{toks: toks, src: src}
	defer func() {
		if r := recover(); r != nil {
			if pe, ok := r.(parseErr); ok {
				err = fmt.Errorf("%s in %q", string(pe), src)
				return
			}
			panic(r)
		}
	}()
	e = ps.expr(0)
	if ps.peek().k != "eof" {
		ps.fail("unexpected token " + ps.peek().s)
	}
	e.Src = src
	return e, nil
}

type parseErr string

func (ps *exprParser) fail(msg string) { panic(parseErr(msg)) }
func (ps *exprParser) peek() tok       { return ps.toks[ps.p] }
func (ps *exprParser) next() tok       { t := ps.toks[ps.p]; ps.p++; return t }
func (ps *exprParser) isOp(s string) bool {
	t := ps.peek()
	return t.k == "op" && t.s == s
}
func (ps *exprParser) expect(s string) {
	if !ps.isOp(s) {
		ps.fail(fmt.Sprintf("expected %q, found %q", s, ps.peek().s))
	}
	ps.p++
}

var binPrec = map[string]int{
	"<==>": 1, "==>": 2, "||": 3, "&&": 4,
	"==": 5, "!=": 5, "<": 5, "<=": 5, ">": 5, ">=": 5,
	"+": 6, "-": 6, "*": 7, "/": 7, "%": 7,
}

func (ps *exprParser) expr(minPrec int) *Expr {
	lhs := ps.unary()
	for {
		t := ps.peek()
		if t.k != "op" {
			break
		}
		prec, ok := binPrec[t.s]
		if !ok || prec < minPrec {
			break
		}
		ps.p++
		var rhs *Expr
		if t.s == "==>" {
			rhs = ps.expr(prec) // right assoc
		} else {
			rhs = ps.expr(prec + 1)
		}
		lhs = &Expr{Kind: "bin", Op: t.s, Args: []*Expr{lhs, rhs}}
	}
	return lhs
}

func (ps *exprParser) unary() *Expr {
	if ps.isOp("!") {
		ps.p++
		return &Expr{Kind: "un", Op: "!", X: ps.unary()}
	}
	if ps.isOp("-") {
		ps.p++
		return &Expr{Kind: "un", Op: "-", X: ps.unary()}
	}
	return ps.postfix()
}

var typeArgFuncs = map[string]int{"is": 1, "as": 1, "forallv": 1, "existsv": 1, "zero": 0, "tag": 0}

func (ps *exprParser) parseType() *Expr {
	var sb strings.Builder
	for {
		if ps.isOp("*") {
			ps.p++
			sb.WriteString("*")
			continue
		}
		if ps.isOp("[") {
			ps.p++
			ps.expect("]")
			sb.WriteString("[]")
			continue
		}
		break
	}
	t := ps.next()
	if t.k != "id" {
		ps.fail("type name expected")
	}
	sb.WriteString(t.s)
	if t.s == "map" && ps.isOp("[") {
		ps.p++
		k := ps.parseType()
		ps.expect("]")
		v := ps.parseType()
		prefix := strings.TrimSuffix(sb.String(), "map")
		return &Expr{Kind: "type", Name: prefix + "map[" + k.Name + "]" + v.Name}
	}
	if ps.isOp(".") {
		ps.p++
		t2 := ps.next()
		if t2.k != "id" {
			ps.fail("type name expected after '.'")
		}
		sb.WriteString("." + t2.s)
	}
	return &Expr{Kind: "type", Name: sb.String()}
}

func (ps *exprParser) postfix() *Expr {
	var e *Expr
	t := ps.next()
	switch t.k {
	case "id":
		e = &Expr{Kind: "ident", Name: t.s}
	case "int":
		e = &Expr{Kind: "int", Name: t.s}
	case "float":
		e = &Expr{Kind: "float", Name: t.s}
	case "str":
		e = &Expr{Kind: "str", Name: t.s}
	case "op":
		if t.s == "(" {
			e = ps.expr(0)
			ps.expect(")")
		} else {
			ps.fail("unexpected " + t.s)
		}
	default:
		ps.fail("unexpected end of expression")
	}
	for {
		switch {
		case ps.isOp("("):
			ps.p++
			call := &Expr{Kind: "call", X: e}
			if e.Kind == "ident" {
				call.Name = e.Name
			}
			idx := 0
			for !ps.isOp(")") {
				if ti, ok := typeArgFuncs[call.Name]; ok && idx == ti {
					call.Args = append(call.Args, ps.parseType())
				} else {
					call.Args = append(call.Args, ps.expr(0))
				}
				idx++
				if ps.isOp(",") {
					ps.p++
				} else {
					break
				}
			}
			ps.expect(")")
			e = call
		case ps.isOp("["):
			ps.p++
			if ps.isOp(":") {
				ps.p++
				var hi *Expr
				if !ps.isOp("]") {
					hi = ps.expr(0)
				}
				ps.expect("]")
				e = &Expr{Kind: "slice", X: e, Args: []*Expr{nil, hi}}
				continue
			}
			i := ps.expr(0)
			if ps.isOp(":") {
				ps.p++
				var hi *Expr
				if !ps.isOp("]") {
					hi = ps.expr(0)
				}
				ps.expect("]")
				e = &Expr{Kind: "slice", X: e, Args: []*Expr{i, hi}}
				continue
			}
			ps.expect("]")
			e = &Expr{Kind: "index", X: e, Args: []*Expr{i}}
		case ps.isOp("."):
			ps.p++
			if ps.isOp("(") {
				ps.p++
				ty := ps.parseType()
				ps.expect(")")
				e = &Expr{Kind: "call", Name: "as", Args: []*Expr{e, ty}}
				continue
			}
			t := ps.next()
			if t.k != "id" {
				ps.fail("field name expected")
			}
			e = &Expr{Kind: "sel", X: e, Name: t.s}
		default:
			return e
		}
	}
}

func (e *Expr) String() string {
	if e == nil {
		return ""
	}
	switch e.Kind {
	case "ident", "int", "float", "type":
		return e.Name
	case "str":
		return fmt.Sprintf("%q", e.Name)
	case "bin":
		return "(" + e.Args[0].String() + " " + e.Op + " " + e.Args[1].String() + ")"
	case "un":
		return e.Op + e.X.String()
	case "call":
		var as []string
		for _, a := range e.Args {
			as = append(as, a.String())
		}
		n := e.Name
		if n == "" {
			n = e.X.String()
		}
		return n + "(" + strings.Join(as, ", ") + ")"
	case "index":
		return e.X.String() + "[" + e.Args[0].String() + "]"
	case "slice":
		return e.X.String() + "[" + e.Args[0].String() + ":" + e.Args[1].String() + "]"
	case "sel":
		return e.X.String() + "." + e.Name
	}
	return "?"
}
