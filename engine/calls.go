package main

// Calls: contracts, inlining, builtins, external models, abstraction by havoc.

import (
	"fmt"
	"go/token"
	"go/types"
	"sort"
	"strings"

	"golang.org/x/tools/go/ssa"
)

func (ex *Exec) call(fr *Frame, st *State, c *ssa.CallCommon, in ssa.Instruction, fname string) Value {
	var args []Value
	for _, a := range c.Args {
		args = append(args, ex.val(fr, st, a))
	}
	fnv := ex.val(fr, st, c.Value)
	return ex.callWith(fr, st, c, fnv, args, in, fname)
}

func resultType(sig *types.Signature) types.Type {
	switch sig.Results().Len() {
	case 0:
		return nil
	case 1:
		return sig.Results().At(0).Type()
	}
	return sig.Results()
}

func packResults(sig *types.Signature, vals []Value) Value {
	rt := resultType(sig)
	if rt == nil {
		return Value{}
	}
	if len(vals) == 1 {
		v := vals[0]
		v.T = rt
		return v
	}
	var cs []*Term
	for _, v := range vals {
		cs = append(cs, v.C...)
	}
	return Value{T: rt, C: cs}
}

func (ex *Exec) freshResults(st *State, sig *types.Signature, why string) Value {
	rt := resultType(sig)
	if rt == nil {
		return Value{}
	}
	v := freshValue("ret."+why, rt)
	ex.assumeTyped(st, v)
	return v
}

func (ex *Exec) callWith(fr *Frame, st *State, c *ssa.CallCommon, fnv Value, args []Value, in ssa.Instruction, fname string) Value {
	sig := c.Signature()
	pos := token.NoPos
	if in != nil {
		pos = in.Pos()
	}
	if c.IsInvoke() {
		return ex.invoke(fr, st, c, fnv, args, in, fname)
	}
	if fnv.Bi != nil {
		return ex.builtin(fr, st, fnv.Bi, c, args, in, fname)
	}
	var fn *ssa.Function
	var bindings []Value
	switch {
	case fnv.Fn != nil:
		fn = fnv.Fn
	case fnv.Clo != nil:
		fn, bindings = fnv.Clo.Fn, fnv.Clo.Bindings
	default:
		if mc := closureOrigin(c.Value); mc != nil {
			if cv, ok := fr.regs[mc]; ok && cv.Clo != nil {
				fn, bindings = cv.Clo.Fn, cv.Clo.Bindings
			}
		} else if f, ok := staticFnOrigin[c.Value]; ok {
			fn = f
		}
	}
	if fn == nil && typeStr(c.Value.Type()) == "context.CancelFunc" {
		// cancelling a context touches only the context's own bookkeeping (assumed)
		ex.warn("context.CancelFunc call in %s treated as a no-op on program state", fname)
		return Value{}
	}
	if fn == nil {
		// a call through a function-valued parameter or variable: program-point assertions may name it
		// (<package>.<variable>), arg0, arg1, ... are the arguments
		vname := ""
		if u, ok := c.Value.(*ssa.UnOp); ok && u.Op.String() == "*" {
			if a, ok := u.X.(*ssa.Alloc); ok {
				vname = a.Comment
			}
		} else if p, ok := c.Value.(*ssa.Parameter); ok {
			vname = p.Name()
		}
		ord := 0
		if vname != "" && fr.fn != nil && fr.fn.Pkg != nil {
			vname = fr.fn.Pkg.Pkg.Name() + "." + vname
			ord = fr.nextOrd(vname, in)
			ex.pointArgs = args
			ex.pointAsserts(fr, st, vname, ord, fname, in, true)
			ex.pointArgs = nil
		}
		var res Value
		if mods := ex.callbackFrame(fr, c.Value); mods != nil {
			// assumed frame of whatever callback was handed in (listed in the evidence)
			env := ex.frameEnv(fr, st.clone(), fr.entry)
			nw := Fresh("wm.cb", IntSort)
			ex.assume(st.pc, Ge(nw, st.wm))
			st.wm = nw
			ex.havocTargets(st, mods, env, fr, "callback of "+fname)
			res = ex.freshResults(st, sig, "fnvalue")
		} else {
			ex.warn("call through an unknown function value in %s: whole heap havocked", fname)
			ws := newWriteSet()
			ws.setAll("call through function value")
			ex.havoc(st, ws, "fnvalue", fr)
			res = ex.freshResults(st, sig, "fnvalue")
		}
		if vname != "" {
			ex.pointAsserts(fr, st, vname, ord, fname, in, false)
		}
		return res
	}
	_ = pos
	return ex.callFunc(fr, st, fn, bindings, args, in, fname)
}

func (ex *Exec) inStack(fr *Frame, fn *ssa.Function) bool {
	for f := fr; f != nil; f = f.parent {
		if f.fn == fn {
			return true
		}
	}
	return false
}

func (ex *Exec) callFunc(fr *Frame, st *State, fn *ssa.Function, bindings []Value, args []Value, in ssa.Instruction, fname string) Value {
	callee := shortName(fn.String())
	ord := fr.nextOrd(callee, in)
	ex.pointArgs = args
	ex.pointAsserts(fr, st, callee, ord, fname, in, true)
	ex.pointArgs = nil
	var res Value
	sig := fn.Signature
	c := ex.eng.contractFor(fn)
	switch {
	case c != nil && !c.Inline:
		ex.callBindings, ex.callFn = bindings, fn
		saved := ex.inClosureCall
		if fn.Parent() != nil {
			ex.inClosureCall = true
		}
		res = ex.applyContract(fr, st, c, paramNames(fn), sig, args, fmt.Sprintf("%s#%d", callee, ord), fname, in)
		ex.inClosureCall = saved
		ex.callBindings, ex.callFn = nil, nil
	case externModel(fn) != nil:
		res = externModel(fn)(ex, st, fn, args)
	case ex.eng.isRepoFunc(fn) && fn.Blocks != nil && fr.depth < maxInlineDepth && !ex.inStack(fr, fn) && ex.budget > 0 && !(ex.topC != nil && (ex.topC.Abstract[callee] || ex.topC.Abstract["*"])):
		ex.inlined[callee] = true
		nf := &Frame{fn: fn, regs: map[ssa.Value]Value{}, params: map[*ssa.Parameter]Value{}, freeVars: map[*ssa.FreeVar]Value{}, callOrd: map[string]int{}, depth: fr.depth + 1, parent: fr, entry: st}
		for i, p := range fn.Params {
			if i < len(args) {
				a := args[i]
				if a.Loc == nil {
					a.T = p.Type()
				}
				nf.params[p] = a
			}
		}
		nf.args = args
		for i, fv := range fn.FreeVars {
			if i < len(bindings) {
				nf.freeVars[fv] = bindings[i]
			}
		}
		pc := st.pc
		vals, out := ex.execBody(nf, st.clone())
		// paths that panic inside the callee do not continue; the others carry on
		out.pc = And(out.pc, pc)
		*st = *out
		res = packResults(sig, vals)
	case ex.eng.isPureExternal(fn):
		res = ex.pureResult(st, fn, args)
	default:
		ws := ex.eng.wa.ofFunction(fn)
		ex.abstracted[callee] = true
		ex.havoc(st, ws, "call."+fn.Name(), fr)
		res = ex.freshResults(st, sig, fn.Name())
	}
	ex.pointAsserts(fr, st, callee, ord, fname, in, false)
	return res
}

func paramNames(fn *ssa.Function) []string {
	var out []string
	for _, p := range fn.Params {
		out = append(out, p.Name())
	}
	if len(out) == 0 && fn.Signature != nil {
		// functions without a body in the program (dependencies): names from the signature
		if r := fn.Signature.Recv(); r != nil {
			out = append(out, r.Name())
		}
		ps := fn.Signature.Params()
		for i := 0; i < ps.Len(); i++ {
			n := ps.At(i).Name()
			if n == "" || n == "_" {
				n = fmt.Sprintf("arg%d", i)
			}
			out = append(out, n)
		}
	}
	return out
}

func (ex *Exec) pointAsserts(fr *Frame, st *State, callee string, ord int, fname string, in ssa.Instruction, before bool) {
	if !fr.top || fr.contract == nil {
		return
	}
	ex.paramsCurrent = true
	defer func() { ex.paramsCurrent = false }()
	defer func() {
		if before {
			return
		}
		for j, ps := range fr.contract.PointSets {
			if ps.Callee != callee || (ps.Ord > 0 && ps.Ord != ord) {
				continue
			}
			ex.pointSetHit[j] = true
			env := ex.frameEnv(fr, st, fr.entry)
			ex.applyGhostSets(st, &FuncContract{Key: fr.contract.Key, GhostSets: []GhostSet{ps.Set}}, env)
		}
	}()
	for j, pa := range fr.contract.Asserts {
		if pa.Callee != callee || (pa.Ord > 0 && pa.Ord != ord) || pa.Before != before {
			continue
		}
		ex.assertHit[j] = true
		when := "after"
		if before {
			when = "before"
		}
		label := fmt.Sprintf("%s-%s#%d:%s", when, callee, ord, clauseLabel(pa.Clause, j))
		g, err := ex.compileBool(fr, st, fr.entry, pa.Clause.E, true)
		if err != nil {
			ex.bindingError(fname, "assert", label, pa.Clause, err)
			continue
		}
		pos := token.NoPos
		if in != nil {
			pos = in.Pos()
		}
		ex.prove(fname, st, "assert", label, g, pa.Clause.Text, pos)
	}
}

// pureResult: deterministic uninterpreted result of a side-effect free external function.
func (ex *Exec) pureResult(st *State, fn *ssa.Function, args []Value) Value {
	sig := fn.Signature
	rt := resultType(sig)
	if rt == nil {
		return Value{}
	}
	var flat []*Term
	ok := true
	if recv := sig.Recv(); recv != nil {
		// readers of mutable containers (bytes.Buffer, strings.Builder, ...): the result depends on contents the
		// reference does not determine
		switch typeStr(derefType(recv.Type())) {
		case "bytes.Buffer", "strings.Builder", "bytes.Reader", "strings.Reader", "bufio.Reader", "bufio.Writer":
			ok = false
		}
	}
	for _, a := range args {
		if a.Loc != nil {
			ok = false
			break
		}
		for _, c := range a.C {
			if c.Sort.Kind == SArray {
				ok = false
			}
		}
		// slices are passed by reference to contents we do not feed to the UF: not deterministic in them
		if _, isSlice := a.T.Underlying().(*types.Slice); isSlice {
			ok = false
		}
		flat = append(flat, a.C...)
	}
	l := layout(rt)
	v := Value{T: rt, C: make([]*Term, len(l))}
	name := shortName(fn.String())
	for j, c := range l {
		if ok {
			v.C[j] = UF(fmt.Sprintf("ext.%s.%d", name, j), c.Sort, flat...)
		} else {
			v.C[j] = Fresh("ext."+name, c.Sort)
		}
		if c.Kind == "ref" || c.Kind == "sbase" {
			// references returned by side-effect free externals (errors, compiled patterns, ...): when the
			// arguments are scalars the result is a deterministic function of them (so is its nil-ness); it
			// denotes an object that exists after the call
			nw := Fresh("wm.ext", IntSort)
			ex.assume(st.pc, Ge(nw, st.wm))
			st.wm = nw
			if !ok {
				r := Fresh("extref."+name, IntSort)
				ex.assume(st.pc, Or(Eq(r, IntLit(0)), And(Gt(r, IntLit(0)), Le(r, nw))))
				v.C[j] = r
			}
		}
	}
	ex.assumeTyped(st, v)
	return v
}

// ---------------------------------------------------------------------------------------------
// contracts at call sites

func (ex *Exec) applyContract(fr *Frame, st *State, c *FuncContract, pnames []string, sig *types.Signature, args []Value, site string, fname string, in ssa.Instruction) Value {
	ex.usedContr[c.Key] = true
	pkg := ex.eng.pkgByName[c.Pkg]
	vars := map[string]Value{}
	for i, n := range pnames {
		if i < len(args) {
			vars[n] = args[i]
		}
	}
	pos := token.NoPos
	if in != nil {
		pos = in.Pos()
	}
	pre := st.clone()
	// captured variables of a closure called directly: its contract names them
	var cells map[string]cellBinding
	if ex.callFn != nil && len(ex.callBindings) == len(ex.callFn.FreeVars) {
		cells = map[string]cellBinding{}
		for i, fv := range ex.callFn.FreeVars {
			b := ex.callBindings[i]
			if _, isPtr := fv.Type().Underlying().(*types.Pointer); isPtr && len(b.C) == 1 && b.Loc == nil {
				if _, shadow := vars[fv.Name()]; !shadow {
					cells[fv.Name()] = cellBinding{ref: b.C[0], t: derefType(fv.Type())}
				}
			}
		}
	}
	env := &Env{ex: ex, vars: vars, st: pre, old: pre, pkg: pkg, cells: cells}
	for f := fr; f != nil; f = f.parent {
		if f.entry != nil {
			env.entryWm = f.entry.wm
		}
	}
	if ex.inSpec == 0 {
		for j, r := range c.Requires {
			g, err := env.boolExpr(r.E, true)
			label := fmt.Sprintf("%s:%s", site, clauseLabel(r, j))
			if err != nil {
				ex.bindingError(fname, "pre", label, r, err)
				continue
			}
			ex.prove(fname, st, "pre", label, g, r.Text, pos)
			ex.assumePath(st.pc, g)
		}
	}
	if ex.inSpec == 0 && ex.topC != nil && ex.topC.Terminates {
		ex.terminationAtCall(fr, st, c, env, site, fname, pos)
	}
	// post state
	ex.havocModifies(st, c, env, fr)
	ex.applyGhostSets(st, c, env)
	for _, pn := range c.Calls {
		// a function-typed parameter the callee invokes: whatever that function may write is written
		var clo *Closure
		var fnv *ssa.Function
		for i, n := range pnames {
			if n == pn && i < len(args) {
				clo = args[i].Clo
				fnv = args[i].Fn
			}
		}
		ws := newWriteSet()
		switch {
		case clo != nil:
			ws.union(ex.eng.wa.ofFunction(clo.Fn))
		case fnv != nil:
			ws.union(ex.eng.wa.ofFunction(fnv))
		default:
			ws.setAll("function argument " + pn + " of " + c.Key + " is not a known literal")
		}
		ex.havoc(st, ws, "callback."+pn, fr)
	}
	var results []Value
	for i := 0; i < sig.Results().Len(); i++ {
		v := freshValue("ret."+c.Key, sig.Results().At(i).Type())
		results = append(results, v)
	}
	if len(results) > 0 {
		// references returned may be new
		nw := Fresh("wm.ret", IntSort)
		ex.assume(st.pc, Ge(nw, st.wm))
		st.wm = nw
		for _, v := range results {
			ex.assumeTyped(st, v)
		}
	}
	// a result the contract declares fresh is a new object: the contents of its fields are whatever the ensures
	// clauses say, not what the pre-state heap held at that (then unallocated) reference
	for i, v := range results {
		if !declaresFresh(c, i, len(results)) {
			continue
		}
		if pt, ok := v.T.Underlying().(*types.Pointer); ok && len(v.C) == 1 {
			for _, k := range refKeys(pt.Elem()) {
				srt := keySortReg[k]
				fv := Fresh(k+".new", srt.Elem)
				st.heap.m[k] = Store(st.heap.Get(k, srt), v.C[0], fv)
			}
		}
	}
	post := &Env{ex: ex, vars: vars, st: st, old: pre, pkg: pkg, results: results, resTup: sig.Results(), cells: cells}
	// objects reached from a result that the contract declares fresh as well (fresh(result.Records), ...): what the
	// pre-state heap held at their (then unallocated) references says nothing about them either
	for _, fe := range freshPaths(c) {
		func() {
			defer func() {
				if r := recover(); r != nil {
					if _, ok := r.(compileErr); ok {
						return
					}
					panic(r)
				}
			}()
			v := post.compile(fe, 0)
			switch t := v.T.Underlying().(type) {
			case *types.Slice:
				for _, k := range elemKeys(t.Elem()) {
					srt := keySortReg[k]
					st.heap.m[k] = Store(st.heap.Get(k, srt), v.C[0], Fresh(k+".new", srt.Elem))
				}
			case *types.Pointer:
				if len(v.C) == 1 {
					for _, k := range refKeys(t.Elem()) {
						srt := keySortReg[k]
						st.heap.m[k] = Store(st.heap.Get(k, srt), v.C[0], Fresh(k+".new", srt.Elem))
					}
				}
			}
		}()
	}
	for _, e := range c.Ensures {
		g, err := post.boolExpr(e.E, false)
		if err != nil {
			// a postcondition that talks about the callee's locals (checked where the callee is verified) says
			// nothing to a caller
			ex.warn("postcondition of %s not usable at this call site: %v", c.Key, err)
			continue
		}
		ex.assume(st.pc, g)
	}
	return packResults(sig, results)
}

// applyGhostSets performs the contract's ghost assignments (right-hand sides evaluated in env's state).
func (ex *Exec) applyGhostSets(st *State, c *FuncContract, env *Env) {
	for _, gs := range c.GhostSets {
		g, ok := ex.eng.contracts.Ghosts[gs.Var]
		if !ok {
			ex.eng.bindingErrors = append(ex.eng.bindingErrors, fmt.Sprintf("%s: ghostset %s: no such ghost variable", c.Key, gs.Var))
			continue
		}
		var v Value
		func() {
			defer func() {
				if r := recover(); r != nil {
					if ce, ok := r.(compileErr); ok {
						ex.eng.bindingErrors = append(ex.eng.bindingErrors, fmt.Sprintf("%s: ghostset %s: %s", c.Key, gs.Text, ce.msg))
						return
					}
					panic(r)
				}
			}()
			v = env.compile(gs.E, 0)
		}()
		if len(v.C) != 1 {
			continue
		}
		srt := ex.eng.ghostSort(g)
		st.heap.m[regKey("GH:"+gs.Var, srt)] = v.C[0]
	}
}

func (ex *Exec) havocModifies(st *State, c *FuncContract, env *Env, fr *Frame) {
	if !c.HasMod {
		// unspecified: fall back on the static write set of the body when there is one
		if fn := ex.eng.funcByKey[c.Key]; fn != nil && fn.Blocks != nil && !c.Trusted {
			ws := ex.eng.wa.bodyWrites(fn)
			ex.havoc(st, ws, "call."+fn.Name(), fr)
		}
		return
	}
	ex.havocTargets(st, c.Modifies, env, fr, c.Key)
	nw := Fresh("wm.call", IntSort)
	ex.assume(st.pc, Ge(nw, st.wm))
	st.wm = nw
}

func (ex *Exec) havocTargets(st *State, mods []ModTarget, env *Env, fr *Frame, owner string) {
	for _, mt := range mods {
		switch {
		case mt.Fresh:
			// handled by the caller (loop heads); at call sites objects younger than the call do not exist yet
		case mt.All:
			ws := newWriteSet()
			ws.setAll("modifies * of " + owner)
			ws.except = mt.Except
			ex.havoc(st, ws, "mod", fr)
		case mt.Key != "":
			srt, ok := keySortReg[mt.Key]
			if !ok {
				if g, isGhost := ex.eng.contracts.Ghosts[strings.TrimPrefix(mt.Key, "GH:")]; isGhost {
					srt = ex.eng.ghostSort(g)
					regKey(mt.Key, srt)
				} else {
					ex.warn("modifies key %s of %s: unknown heap key", mt.Key, owner)
					continue
				}
			}
			st.heap.m[mt.Key] = Fresh(mt.Key+".mod", srt)
		default:
			ex.havocTarget(st, mt, env, owner)
		}
	}
}

// havocTarget: x.f (one field of one object), x (all fields of *x, or the map x), x[*] (elements of slice x).
func (ex *Exec) havocTarget(st *State, mt ModTarget, env *Env, owner string) {
	defer func() {
		if r := recover(); r != nil {
			if ce, ok := r.(compileErr); ok {
				ex.eng.bindingErrors = append(ex.eng.bindingErrors, fmt.Sprintf("%s: modifies %s: %s", owner, mt.Text, ce.msg))
				return
			}
			panic(r)
		}
	}()
	e := mt.E
	if mt.Elts {
		x := env.compile(e, 0)
		if mp, ok := x.T.Underlying().(*types.Map); ok {
			// m[*]: the entries of the map m
			d, l, vs := mapKeys(mp)
			for _, k := range append([]string{d, l}, vs...) {
				srt := keySortReg[k]
				st.heap.m[k] = Store(st.heap.Get(k, srt), x.one(), Fresh(k+".mod", srt.Elem))
			}
			return
		}
		sl, ok := x.T.Underlying().(*types.Slice)
		if !ok {
			cfail("%s[*]: not a slice", e)
		}
		for _, k := range elemKeys(sl.Elem()) {
			srt := keySortReg[k]
			arr := st.heap.Get(k, srt)
			inner := Fresh(k+".mod", srt.Elem)
			regHeapConst(inner, k, st.wm)
			st.heap.m[k] = Store(arr, x.C[0], inner)
		}
		return
	}
	if e.Kind == "sel" {
		// ghost / package variables handled as plain idents below; here x.f
		if !(e.X.Kind == "ident" && env.findPackage(e.X.Name) != nil && env.vars[e.X.Name].T == nil) {
			x := env.compile(e.X, 0)
			p, ok := x.T.Underlying().(*types.Pointer)
			if !ok {
				cfail("%s: receiver of a modified field must be a pointer", e)
			}
			sst, ok := p.Elem().Underlying().(*types.Struct)
			if !ok {
				cfail("%s: not a struct", e.X)
			}
			idx, emb := findField(sst, e.Name)
			if idx < 0 || emb != nil {
				cfail("%s: no direct field %s", e, e.Name)
			}
			off := fieldOffset(sst, idx)
			n := len(layout(sst.Field(idx).Type()))
			if x.Loc != nil {
				// interior pointer (address of a local or of an embedded struct): the field is a sub-location
				nl := *x.Loc
				nl.Off += off
				nl.T = sst.Field(idx).Type()
				fv := freshValue("mod."+e.Name, nl.T)
				ex.assumeTyped(st, fv)
				ex.writeLoc(st, &nl, fv)
				return
			}
			keys := refKeys(p.Elem())
			for _, k := range keys[off : off+n] {
				srt := keySortReg[k]
				fv := Fresh(k+".mod", srt.Elem)
				if c, ok := keyCompReg[k]; ok {
					ex.assume(st.pc, scalarFact(c, fv, st.wm))
				}
				st.heap.m[k] = Store(st.heap.Get(k, srt), x.one(), fv)
			}
			return
		}
	}
	if e.Kind == "ident" {
		if g, ok := ex.eng.contracts.Ghosts[e.Name]; ok {
			srt := ex.eng.ghostSort(g)
			key := regKey("GH:"+e.Name, srt)
			st.heap.m[key] = Fresh(key+".mod", srt)
			return
		}
	}
	x := env.compile(e, 0)
	switch xt := x.T.Underlying().(type) {
	case *types.Pointer:
		if x.Loc != nil {
			nl := *x.Loc
			nl.T = xt.Elem()
			fv := freshValue("mod", nl.T)
			ex.assumeTyped(st, fv)
			ex.writeLoc(st, &nl, fv)
			return
		}
		for _, k := range refKeys(xt.Elem()) {
			srt := keySortReg[k]
			st.heap.m[k] = Store(st.heap.Get(k, srt), x.one(), Fresh(k+".mod", srt.Elem))
		}
	case *types.Map:
		d, l, vs := mapKeys(xt)
		for _, k := range append([]string{d, l}, vs...) {
			srt := keySortReg[k]
			st.heap.m[k] = Store(st.heap.Get(k, srt), x.one(), Fresh(k+".mod", srt.Elem))
		}
	default:
		cfail("modifies %s: unsupported target of type %s", e, typeStr(x.T))
	}
}

// ---------------------------------------------------------------------------------------------
// interface method calls

func (ex *Exec) invoke(fr *Frame, st *State, c *ssa.CallCommon, recv Value, args []Value, in ssa.Instruction, fname string) Value {
	sig := c.Signature()
	mname := c.Method.FullName()
	callee := shortName(mname)
	ord := fr.nextOrd(callee, in)
	ex.pointArgs = all0(recv, args)
	ex.pointAsserts(fr, st, callee, ord, fname, in, true)
	ex.pointArgs = nil
	defer ex.pointAsserts(fr, st, callee, ord, fname, in, false)
	all := append([]Value{recv}, args...)
	if ic := ex.eng.contractForInvoke(c); ic != nil {
		names := []string{"recv"}
		ps := c.Method.Type().(*types.Signature).Params()
		for i := 0; i < ps.Len(); i++ {
			n := ps.At(i).Name()
			if n == "" {
				n = fmt.Sprintf("arg%d", i)
			}
			names = append(names, n)
		}
		return ex.applyContract(fr, st, ic, names, sig, all, fmt.Sprintf("%s#%d", callee, ord), fname, in)
	}
	if mname == "(context.Context).Err" || mname == "(context.Context).Done" {
		// cancellation can arrive at any moment: every poll is a fresh observation (writes nothing)
		return ex.freshResults(st, sig, "ctx."+c.Method.Name())
	}
	if ex.eng.pureInvoke(c) {
		rt := resultType(sig)
		if rt == nil {
			return Value{}
		}
		l := layout(rt)
		v := Value{T: rt, C: make([]*Term, len(l))}
		var flat []*Term
		for _, a := range all {
			flat = append(flat, a.C...)
		}
		for j, cc := range l {
			v.C[j] = UF(fmt.Sprintf("ext.%s.%d", callee, j), cc.Sort, flat...)
		}
		ex.assumeTyped(st, v)
		return v
	}
	impls := ex.eng.implementors(c.Value.Type(), c.Method)
	if impls == nil || len(impls) > 10 || fr.depth >= maxInlineDepth {
		ws := newWriteSet()
		if impls != nil {
			for _, f := range impls {
				ws.union(ex.eng.wa.ofFunction(f))
			}
		} else {
			ws.setAll("invoke of " + mname)
		}
		ex.abstracted[callee] = true
		ex.havoc(st, ws, "invoke."+c.Method.Name(), fr)
		return ex.freshResults(st, sig, c.Method.Name())
	}
	// case split on the dynamic type
	ref := recv.one()
	var outs []*State
	var vals []Value
	rest := st.pc
	for _, f := range impls {
		rt := f.Signature.Recv().Type()
		cond := Eq(dyntype(ref), ex.tagOf(rt))
		s := st.clone()
		s.pc = And(st.pc, cond)
		rest = And(rest, Not(cond))
		if s.pc == False {
			continue
		}
		var rv Value
		if _, isPtr := rt.Underlying().(*types.Pointer); isPtr {
			rv = Value{T: rt, C: []*Term{ref}}
		} else {
			rv = ex.readLoc(s, &Loc{Kind: LRef, Ref: ref, Keys: refKeys(rt), T: rt})
		}
		v := ex.callFunc(fr, s, f, nil, append([]Value{rv}, args...), in, fname)
		fr.callOrd[shortName(f.String())]-- // ordinal bookkeeping belongs to the interface call
		outs = append(outs, s)
		vals = append(vals, v)
	}
	// unknown dynamic type (including nil receiver: a panic in Go)
	if ex.safetyOn(fr) {
		ex.prove(fname, st, "nil", ex.srcLabel(in.Pos()), Not(Eq(ref, IntLit(0))), "method call on nil interface", in.Pos())
	}
	other := st.clone()
	other.pc = And(rest, Not(Eq(ref, IntLit(0))))
	if other.pc != False {
		ws := newWriteSet()
		for _, f := range impls {
			ws.union(ex.eng.wa.ofFunction(f))
		}
		ex.havoc(other, ws, "invoke.other", fr)
		outs = append(outs, other)
		vals = append(vals, ex.freshResults(other, sig, c.Method.Name()))
	}
	if len(outs) == 0 {
		st.pc = False
		return ex.freshResults(st, sig, c.Method.Name())
	}
	conds := make([]*Term, len(outs))
	for i, o := range outs {
		conds[i] = o.pc
	}
	m := mergeStates(outs)
	*st = *m
	rt := resultType(sig)
	if rt == nil {
		return Value{}
	}
	n := len(layout(rt))
	res := Value{T: rt, C: make([]*Term, n)}
	for j := 0; j < n; j++ {
		col := make([]*Term, len(vals))
		for i, v := range vals {
			if j < len(v.C) {
				col[i] = v.C[j]
			} else {
				col[i] = zeroComp(layout(rt)[j])
			}
		}
		res.C[j] = iteChain(conds, col)
	}
	return res
}

// ---------------------------------------------------------------------------------------------
// builtins

func (ex *Exec) builtin(fr *Frame, st *State, b *ssa.Builtin, c *ssa.CallCommon, args []Value, in ssa.Instruction, fname string) Value {
	sig := c.Signature()
	switch b.Name() {
	case "len":
		x := args[0]
		switch xt := x.T.Underlying().(type) {
		case *types.Slice:
			return Value{T: types.Typ[types.Int], C: []*Term{x.C[2]}}
		case *types.Basic:
			t := UF("str_len", IntSort, x.one())
			ex.assume(st.pc, And(Ge(t, IntLit(0)), Le(t, BigLit(maxInt64))))
			return Value{T: types.Typ[types.Int], C: []*Term{t}}
		case *types.Map:
			_, l, _ := mapKeys(xt)
			t := Select(st.heap.Get(l, ArraySort(IntSort, IntSort)), x.one())
			ex.assume(st.pc, And(Ge(t, IntLit(0)), Le(t, BigLit(maxInt64))))
			return Value{T: types.Typ[types.Int], C: []*Term{t}}
		case *types.Pointer:
			if arr, ok := xt.Elem().Underlying().(*types.Array); ok {
				return Value{T: types.Typ[types.Int], C: []*Term{IntLit(arr.Len())}}
			}
		case *types.Array:
			return Value{T: types.Typ[types.Int], C: []*Term{IntLit(xt.Len())}}
		}
		return ex.freshResults(st, sig, "len")
	case "cap":
		x := args[0]
		if _, ok := x.T.Underlying().(*types.Slice); ok {
			return Value{T: types.Typ[types.Int], C: []*Term{x.C[3]}}
		}
		return ex.freshResults(st, sig, "cap")
	case "append":
		return ex.appendBuiltin(fr, st, c, args, fname)
	case "copy":
		return ex.copyBuiltin(fr, st, c, args, fname)
	case "delete":
		mt := args[0].T.Underlying().(*types.Map)
		ks := mapKeySort(mt)
		if ks == nil {
			return Value{}
		}
		m, k := args[0].one(), args[1].one()
		d, l, _ := mapKeys(mt)
		ex.ownWriteCheck(fr, st, &Loc{Kind: LRef, Ref: m, Keys: []string{d}, T: types.Typ[types.Bool]}, fname, token.NoPos)
		ds := ArraySort(IntSort, ArraySort(ks, BoolSort))
		dom := st.heap.Get(d, ds)
		present := And(Not(Eq(m, IntLit(0))), Select(Select(dom, m), k))
		st.heap.m[d] = Store(dom, m, Store(Select(dom, m), k, False))
		la := st.heap.Get(l, ArraySort(IntSort, IntSort))
		st.heap.m[l] = Store(la, m, Sub(Select(la, m), Ite(present, IntLit(1), IntLit(0))))
		return Value{}
	case "print", "println":
		return Value{}
	case "min", "max":
		a, bb := args[0].one(), args[1].one()
		if a.Sort == IntSort {
			if b.Name() == "min" {
				return Value{T: args[0].T, C: []*Term{Ite(Le(a, bb), a, bb)}}
			}
			return Value{T: args[0].T, C: []*Term{Ite(Ge(a, bb), a, bb)}}
		}
		return ex.freshResults(st, sig, b.Name())
	case "ssa:wrapnilchk":
		return args[0]
	case "recover":
		// normal (non-panicking) executions: recover() returns nil
		return Value{T: resultType(sig), C: []*Term{IntLit(0)}}
	case "ssa:deferstack":
		return Value{T: resultType(sig), C: []*Term{IntLit(0)}}
	}
	if strings.HasPrefix(b.Name(), "ssa:") {
		return ex.freshResults(st, sig, b.Name())
	}
	ex.warn("builtin %s in %s not modelled: whole heap havocked", b.Name(), fname)
	ws := newWriteSet()
	ws.setAll("builtin " + b.Name())
	ex.havoc(st, ws, "builtin", fr)
	return ex.freshResults(st, sig, b.Name())
}

// append(s, t...): both outcomes (in place when capacity suffices, fresh backing array otherwise).
func (ex *Exec) appendBuiltin(fr *Frame, st *State, c *ssa.CallCommon, args []Value, fname string) Value {
	s, t := args[0], args[1]
	sl, ok := s.T.Underlying().(*types.Slice)
	if !ok {
		return ex.freshResults(st, c.Signature(), "append")
	}
	et := sl.Elem()
	var tlen *Term
	tIsString := false
	if _, isStr := t.T.Underlying().(*types.Basic); isStr {
		tIsString = true
		tlen = UF("str_len", IntSort, t.one())
	} else {
		tlen = t.C[2]
	}
	sbase, soff, slen, scap := s.C[0], s.C[1], s.C[2], s.C[3]
	newlen := Add(slen, tlen)
	inplace := Le(newlen, scap)
	fb := ex.allocRef(st)
	ncap := Fresh("append.cap", IntSort)
	ex.assume(st.pc, And(Ge(ncap, newlen), Le(ncap, BigLit(maxInt64))))
	rbase := Ite(inplace, sbase, fb)
	roff := Ite(inplace, soff, IntLit(0))
	rcap := Ite(inplace, scap, ncap)
	el := layout(et)
	for j, k := range elemKeys(et) {
		srt := keySortReg[k]
		arr := st.heap.Get(k, srt)
		srcArr := Select(arr, sbase)
		// constant small appended length: explicit stores
		var small int64 = -1
		if tlen.Op == "int" && tlen.Int.IsInt64() && tlen.Int.Int64() <= 4 && !tIsString {
			small = tlen.Int.Int64()
		}
		if small >= 0 {
			tarr := Select(arr, t.C[0])
			// in-place array
			ip := srcArr
			for q := int64(0); q < small; q++ {
				ip = Store(ip, Idx(soff, Add(slen, IntLit(q))), Select(tarr, Idx(t.C[1], IntLit(q))))
			}
			// fresh array: prefix copied
			fa := Fresh("append.new", srt.Elem)
			i := BoundVar("i", IntSort)
			body := Implies(And(Le(IntLit(0), i), Lt(i, slen)), Eq(Select(fa, i), Select(srcArr, Idx(soff, i))))
			ex.assume(st.pc, Forall([]*Term{i}, body, [][]*Term{{Select(fa, i)}}))
			fr2 := fa
			for q := int64(0); q < small; q++ {
				fr2 = Store(fr2, Add(slen, IntLit(q)), Select(tarr, Idx(t.C[1], IntLit(q))))
			}
			st.heap.m[k] = Store(arr, rbase, Ite(inplace, ip, fr2))
			continue
		}
		// general case: result contents described by quantified facts
		na := Fresh("append.arr", srt.Elem)
		i := BoundVar("i", IntSort)
		pre := Implies(And(Le(IntLit(0), i), Lt(i, slen)), Eq(Select(na, Idx(roff, i)), Select(srcArr, Idx(soff, i))))
		ex.assume(st.pc, Forall([]*Term{i}, pre, [][]*Term{{Select(na, Idx(roff, i))}}))
		if !tIsString {
			tarr := Select(arr, t.C[0])
			q := BoundVar("q", IntSort)
			suf := Implies(And(Le(IntLit(0), q), Lt(q, tlen)), Eq(Select(na, Idx(roff, Add(slen, q))), Select(tarr, Idx(t.C[1], q))))
			ex.assume(st.pc, Forall([]*Term{q}, suf, [][]*Term{{Select(na, Idx(roff, Add(slen, q)))}}))
		} else if el[j].Sort == IntSort {
			q := BoundVar("q", IntSort)
			suf := Implies(And(Le(IntLit(0), q), Lt(q, tlen)), Eq(Select(na, Idx(roff, Add(slen, q))), UF("str_at", IntSort, t.one(), q)))
			ex.assume(st.pc, Forall([]*Term{q}, suf, [][]*Term{{Select(na, Idx(roff, Add(slen, q)))}}))
		}
		// in place: everything outside [off+len, off+newlen) keeps its old contents
		w := BoundVar("w", IntSort)
		keep := Implies(And(inplace, Or(Lt(w, Add(soff, slen)), Ge(w, Add(soff, newlen)))), Eq(Select(na, w), Select(srcArr, w)))
		ex.assume(st.pc, Forall([]*Term{w}, keep, [][]*Term{{Select(na, w)}}))
		st.heap.m[k] = Store(arr, rbase, na)
	}
	return Value{T: s.T, C: []*Term{rbase, roff, newlen, rcap}}
}

func (ex *Exec) copyBuiltin(fr *Frame, st *State, c *ssa.CallCommon, args []Value, fname string) Value {
	d, s := args[0], args[1]
	sl, ok := d.T.Underlying().(*types.Slice)
	if !ok {
		return ex.freshResults(st, c.Signature(), "copy")
	}
	var slen *Term
	srcIsString := isString(s.T)
	if srcIsString {
		slen = UF("str_len", IntSort, s.one())
	} else {
		slen = s.C[2]
	}
	n := Ite(Le(d.C[2], slen), d.C[2], slen)
	for j, k := range elemKeys(sl.Elem()) {
		srt := keySortReg[k]
		arr := st.heap.Get(k, srt)
		darr := Select(arr, d.C[0])
		na := Fresh("copy.arr", srt.Elem)
		i := BoundVar("i", IntSort)
		if !srcIsString {
			sarr := Select(arr, s.C[0])
			body := Implies(And(Le(IntLit(0), i), Lt(i, n)), Eq(Select(na, Idx(d.C[1], i)), Select(sarr, Idx(s.C[1], i))))
			ex.assume(st.pc, Forall([]*Term{i}, body, [][]*Term{{Select(na, Idx(d.C[1], i))}}))
		} else if layout(sl.Elem())[j].Sort == IntSort {
			body := Implies(And(Le(IntLit(0), i), Lt(i, n)), Eq(Select(na, Idx(d.C[1], i)), UF("str_at", IntSort, s.one(), i)))
			ex.assume(st.pc, Forall([]*Term{i}, body, [][]*Term{{Select(na, Idx(d.C[1], i))}}))
		}
		w := BoundVar("w", IntSort)
		keep := Implies(Or(Lt(w, d.C[1]), Ge(w, Add(d.C[1], n))), Eq(Select(na, w), Select(darr, w)))
		ex.assume(st.pc, Forall([]*Term{w}, keep, [][]*Term{{Select(na, w)}}))
		st.heap.m[k] = Store(arr, d.C[0], na)
	}
	return Value{T: types.Typ[types.Int], C: []*Term{n}}
}

// declaresFresh: some ensures clause of c contains fresh(result) / fresh(result<i>).
func declaresFresh(c *FuncContract, i int, n int) bool {
	names := map[string]bool{fmt.Sprintf("result%d", i): true}
	if n == 1 {
		names["result"] = true
	}
	found := false
	var walk func(e *Expr)
	walk = func(e *Expr) {
		if e == nil || found {
			return
		}
		if e.Kind == "call" && e.Name == "fresh" && len(e.Args) == 1 && e.Args[0].Kind == "ident" && names[e.Args[0].Name] {
			found = true
			return
		}
		walk(e.X)
		for _, a := range e.Args {
			walk(a)
		}
	}
	for _, cl := range c.Ensures {
		walk(cl.E)
	}
	return found
}

// freshPaths: the arguments of fresh(...) in the ensures clauses that are paths below a result (not a bare result), in
// order of appearance.
func freshPaths(c *FuncContract) []*Expr {
	var out []*Expr
	var rooted func(e *Expr) bool
	rooted = func(e *Expr) bool {
		for e != nil {
			switch e.Kind {
			case "ident":
				return strings.HasPrefix(e.Name, "result")
			case "sel", "index":
				e = e.X
			default:
				return false
			}
		}
		return false
	}
	var walk func(e *Expr)
	walk = func(e *Expr) {
		if e == nil {
			return
		}
		if e.Kind == "call" && e.Name == "fresh" && len(e.Args) == 1 && e.Args[0].Kind != "ident" && rooted(e.Args[0]) {
			out = append(out, e.Args[0])
			return
		}
		walk(e.X)
		for _, a := range e.Args {
			walk(a)
		}
	}
	for _, cl := range c.Ensures {
		walk(cl.E)
	}
	return out
}

// terminationAtCall: under a `terminates` contract a recursive call must arrive with a smaller function-level measure;
// callees under contract that do not carry `terminates` themselves are recorded as assumed to terminate.
func (ex *Exec) terminationAtCall(fr *Frame, st *State, c *FuncContract, env *Env, site, fname string, pos token.Pos) {
	if c != ex.topC {
		if !c.Terminates {
			ex.assumedTerm[c.Key] = true
		}
		return
	}
	if c.Decreases == nil {
		ex.prove(fname, st, "decreases", "rec:"+site, False, "recursive call in a function that must terminate: no function-level decreases clause", pos)
		return
	}
	var top *Frame
	for f := fr; f != nil; f = f.parent {
		top = f
	}
	m0, err := ex.compileInt(top, top.entry, top.entry, c.Decreases.E)
	if err != nil {
		ex.bindingError(fname, "decreases", "rec:"+site, *c.Decreases, err)
		return
	}
	var m *Term
	func() {
		defer func() {
			if r := recover(); r != nil {
				if ce, ok := r.(compileErr); ok {
					err = fmt.Errorf("%s", ce.msg)
					return
				}
				panic(r)
			}
		}()
		v := env.compile(c.Decreases.E, 0)
		if len(v.C) == 1 && v.C[0].Sort == IntSort {
			m = v.C[0]
		} else {
			err = fmt.Errorf("measure is not an integer")
		}
	}()
	if err != nil {
		ex.bindingError(fname, "decreases", "rec:"+site, *c.Decreases, err)
		return
	}
	ex.prove(fname, st, "decreases", "rec:"+site, And(Lt(m, m0), Ge(m0, IntLit(0))), "termination of the recursion: the measure "+c.Decreases.Text+" is non-negative and strictly smaller at the recursive call", pos)
}

// nextOrd numbers the calls of one callee made by a function body in source order (the order in which the symbolic
// execution meets them differs: the exit block of a loop or the else branch of a conditional may come first). Calls
// that cannot be placed (no instruction, callee reached through a function value) fall back to a counter that starts
// after the placed ones.
func (fr *Frame) nextOrd(callee string, in ssa.Instruction) int {
	if fr.srcOrd == nil {
		fr.srcOrd = map[ssa.Instruction]int{}
		fr.srcCnt = map[string]int{}
		if fr.fn != nil {
			by := map[string][]ssa.Instruction{}
			for _, b := range fr.fn.Blocks {
				for _, i := range b.Instrs {
					ci, ok := i.(ssa.CallInstruction)
					if !ok {
						continue
					}
					c := ci.Common()
					name := ""
					if c.IsInvoke() {
						name = shortName(c.Method.FullName())
					} else if f := c.StaticCallee(); f != nil {
						name = shortName(f.String())
					}
					if name != "" {
						by[name] = append(by[name], i)
					}
				}
			}
			for name, l := range by {
				sort.SliceStable(l, func(a, b int) bool {
					pa, pb := l[a].Pos(), l[b].Pos()
					return pa.IsValid() && pb.IsValid() && pa < pb
				})
				for k, i := range l {
					fr.srcOrd[i] = k + 1
				}
				fr.srcCnt[name] = len(l)
			}
		}
	}
	if in != nil {
		if o, ok := fr.srcOrd[in]; ok {
			if ci, ok := in.(ssa.CallInstruction); ok {
				c := ci.Common()
				name := ""
				if c.IsInvoke() {
					name = shortName(c.Method.FullName())
				} else if f := c.StaticCallee(); f != nil {
					name = shortName(f.String())
				}
				if name == callee {
					return o
				}
			}
		}
	}
	fr.callOrd[callee]++
	return fr.srcCnt[callee] + fr.callOrd[callee]
}

func all0(recv Value, args []Value) []Value { return append([]Value{recv}, args...) }

// callbackFrame: the assumed frame (callback <parameter> modifies ...) of a call through a function-valued parameter of
// the function under verification.
func (ex *Exec) callbackFrame(fr *Frame, v ssa.Value) []ModTarget {
	if fr == nil || fr.contract == nil || fr.contract.Callbacks == nil {
		return nil
	}
	return fr.contract.Callbacks[fnValueName(v)]
}

func fnValueName(v ssa.Value) string {
	if u, ok := v.(*ssa.UnOp); ok && u.Op.String() == "*" {
		if a, ok := u.X.(*ssa.Alloc); ok {
			return a.Comment
		}
	}
	if p, ok := v.(*ssa.Parameter); ok {
		return p.Name()
	}
	return ""
}
