package main

// Hash-consed SMT term DAG and SMT-LIB printing.

import (
	"fmt"
	"hash/fnv"
	"math/big"
	"sort"
	"strings"
)

type SortKind int

const (
	SInt SortKind = iota
	SBool
	SF64
	SStr
	STime
	SArray
)

type Sort struct {
	Kind SortKind
	Idx  *Sort
	Elem *Sort
}

var (
	IntSort  = &Sort{Kind: SInt}
	BoolSort = &Sort{Kind: SBool}
	F64Sort  = &Sort{Kind: SF64}
	StrSort  = &Sort{Kind: SStr}
	TimeSort = &Sort{Kind: STime}
)

var arraySorts = map[string]*Sort{}

func ArraySort(idx, elem *Sort) *Sort {
	k := idx.String() + "→" + elem.String()
	if s, ok := arraySorts[k]; ok {
		return s
	}
	s := &Sort{Kind: SArray, Idx: idx, Elem: elem}
	arraySorts[k] = s
	return s
}

func (s *Sort) String() string {
	switch s.Kind {
	case SInt:
		return "Int"
	case SBool:
		return "Bool"
	case SF64:
		return "(_ FloatingPoint 11 53)"
	case SStr:
		return "Str"
	case STime:
		return "Time"
	case SArray:
		return "(Array " + s.Idx.String() + " " + s.Elem.String() + ")"
	}
	return "?"
}

type Term struct {
	id    int
	Op    string // "const" (declared constant), "int", "true", "false", "bound", "forall", "exists", "uf", or SMT op
	Name  string // for const / uf / bound
	Args  []*Term
	Sort  *Sort
	Int   *big.Int
	Bound []*Term   // for quantifiers: bound variables
	Pats  [][]*Term // quantifier patterns
	open  bool      // contains a free bound variable
	key   string
	shash uint64 // structural hash (names and shape only)
}

type TermStore struct {
	tab    map[string]*Term
	nextID int
	fresh  map[string]int
	// declarations of uninterpreted functions: name -> signature
	ufs map[string]*UFDecl
}

type UFDecl struct {
	Name string
	Args []*Sort
	Ret  *Sort
}

func NewTermStore() *TermStore {
	return &TermStore{tab: map[string]*Term{}, fresh: map[string]int{}, ufs: map[string]*UFDecl{}}
}

var TS = NewTermStore()

func (ts *TermStore) intern(t *Term) *Term {
	var sb strings.Builder
	sb.WriteString(t.Op)
	sb.WriteByte('|')
	sb.WriteString(t.Name)
	sb.WriteByte('|')
	if t.Int != nil {
		sb.WriteString(t.Int.String())
	}
	sb.WriteByte('|')
	sb.WriteString(t.Sort.String())
	for _, a := range t.Args {
		fmt.Fprintf(&sb, ",%d", a.id)
	}
	if len(t.Bound) > 0 {
		sb.WriteByte('B')
		for _, a := range t.Bound {
			fmt.Fprintf(&sb, ",%d", a.id)
		}
		for _, p := range t.Pats {
			sb.WriteByte('P')
			for _, a := range p {
				fmt.Fprintf(&sb, ",%d", a.id)
			}
		}
	}
	k := sb.String()
	if o, ok := ts.tab[k]; ok {
		return o
	}
	ts.nextID++
	t.id = ts.nextID
	t.key = k
	// structural hash: depends on the shape and the names only, never on allocation order
	{
		h := fnv.New64a()
		h.Write([]byte(t.Op))
		h.Write([]byte{0})
		h.Write([]byte(t.Name))
		h.Write([]byte{0})
		if t.Int != nil {
			h.Write([]byte(t.Int.String()))
		}
		h.Write([]byte{0})
		h.Write([]byte(t.Sort.String()))
		var buf [8]byte
		put := func(x uint64) {
			for i := 0; i < 8; i++ {
				buf[i] = byte(x >> (8 * i))
			}
			h.Write(buf[:])
		}
		for _, a := range t.Args {
			put(a.shash)
		}
		for _, a := range t.Bound {
			put(a.shash)
		}
		for _, p := range t.Pats {
			h.Write([]byte{1})
			for _, a := range p {
				put(a.shash)
			}
		}
		t.shash = h.Sum64()
	}
	for _, a := range t.Args {
		if a.open {
			t.open = true
		}
	}
	if t.Op == "bound" {
		t.open = true
	}
	if t.Op == "forall" || t.Op == "exists" {
		// open iff body has free bound vars other than ours
		t.open = hasFreeBound(t.Args[0], t.Bound)
	}
	ts.tab[k] = t
	return t
}

func hasFreeBound(t *Term, bound []*Term) bool {
	if !t.open {
		return false
	}
	if t.Op == "bound" {
		for _, b := range bound {
			if b == t {
				return false
			}
		}
		return true
	}
	if t.Op == "forall" || t.Op == "exists" {
		nb := append(append([]*Term{}, bound...), t.Bound...)
		return hasFreeBound(t.Args[0], nb)
	}
	for _, a := range t.Args {
		if hasFreeBound(a, bound) {
			return true
		}
	}
	return false
}

func sanitize(s string) string {
	var sb strings.Builder
	for _, r := range s {
		switch {
		case r >= 'a' && r <= 'z', r >= 'A' && r <= 'Z', r >= '0' && r <= '9', r == '_', r == '.', r == '$', r == '#', r == '@', r == '!':
			sb.WriteRune(r)
		case r == '*':
			sb.WriteString("ptr.")
		case r == '[' || r == ']':
			sb.WriteString("_")
		case r == '/':
			sb.WriteString(".")
		default:
			sb.WriteString("_")
		}
	}
	return sb.String()
}

// fresh-name scopes: inside a specification-level call fresh symbols get names determined by the call
// (function, arguments, heap), so evaluating the same call twice yields the same terms.
var freshScopes []*freshScope

type freshScope struct {
	key string
	n   int
}

func pushFreshScope(key string) { freshScopes = append(freshScopes, &freshScope{key: key}) }
func popFreshScope()            { freshScopes = freshScopes[:len(freshScopes)-1] }

// Fresh declared constant.
func Fresh(prefix string, s *Sort) *Term {
	prefix = sanitize(prefix)
	if len(freshScopes) > 0 {
		sc := freshScopes[len(freshScopes)-1]
		sc.n++
		return TS.intern(&Term{Op: "const", Name: fmt.Sprintf("%s@%s#%d", prefix, sc.key, sc.n), Sort: s})
	}
	TS.fresh[prefix]++
	name := fmt.Sprintf("%s!%d", prefix, TS.fresh[prefix])
	return TS.intern(&Term{Op: "const", Name: name, Sort: s})
}

// Named constant (same name => same term).
func Const(name string, s *Sort) *Term {
	return TS.intern(&Term{Op: "const", Name: sanitize(name), Sort: s})
}

func BoundVar(name string, s *Sort) *Term {
	TS.fresh["bv"]++
	return TS.intern(&Term{Op: "bound", Name: fmt.Sprintf("%s!b%d", sanitize(name), TS.fresh["bv"]), Sort: s})
}

func IntLit(i int64) *Term { return BigLit(big.NewInt(i)) }
func BigLit(b *big.Int) *Term {
	return TS.intern(&Term{Op: "int", Int: new(big.Int).Set(b), Sort: IntSort})
}

var (
	True  = TS.intern(&Term{Op: "true", Sort: BoolSort})
	False = TS.intern(&Term{Op: "false", Sort: BoolSort})
)

func BoolLit(b bool) *Term {
	if b {
		return True
	}
	return False
}

func mk(op string, s *Sort, args ...*Term) *Term {
	return TS.intern(&Term{Op: op, Args: args, Sort: s})
}

func UF(name string, ret *Sort, args ...*Term) *Term {
	name = sanitize(name)
	d, ok := TS.ufs[name]
	if !ok {
		d = &UFDecl{Name: name, Ret: ret}
		for _, a := range args {
			d.Args = append(d.Args, a.Sort)
		}
		TS.ufs[name] = d
	} else {
		if len(d.Args) != len(args) || d.Ret != ret {
			panic(fmt.Sprintf("UF %s used with inconsistent signature", name))
		}
		for i, a := range args {
			if d.Args[i] != a.Sort {
				panic(fmt.Sprintf("UF %s arg %d sort mismatch: %s vs %s", name, i, d.Args[i], a.Sort))
			}
		}
	}
	if len(args) == 0 {
		return Const(name, ret)
	}
	return TS.intern(&Term{Op: "uf", Name: name, Args: args, Sort: ret})
}

func Not(a *Term) *Term {
	switch {
	case a == True:
		return False
	case a == False:
		return True
	case a.Op == "not":
		return a.Args[0]
	}
	return mk("not", BoolSort, a)
}

func And(as ...*Term) *Term {
	var out []*Term
	seen := map[int]bool{}
	for _, a := range as {
		if a == False {
			return False
		}
		if a == True {
			continue
		}
		if a.Op == "and" {
			for _, b := range a.Args {
				if !seen[b.id] {
					seen[b.id] = true
					out = append(out, b)
				}
			}
			continue
		}
		if !seen[a.id] {
			seen[a.id] = true
			out = append(out, a)
		}
	}
	for _, a := range out {
		if a.Op == "not" && seen[a.Args[0].id] {
			return False
		}
	}
	switch len(out) {
	case 0:
		return True
	case 1:
		return out[0]
	}
	return mk("and", BoolSort, out...)
}

func Or(as ...*Term) *Term {
	var out []*Term
	seen := map[int]bool{}
	for _, a := range as {
		if a == True {
			return True
		}
		if a == False {
			continue
		}
		if a.Op == "or" {
			for _, b := range a.Args {
				if !seen[b.id] {
					seen[b.id] = true
					out = append(out, b)
				}
			}
			continue
		}
		if !seen[a.id] {
			seen[a.id] = true
			out = append(out, a)
		}
	}
	for _, a := range out {
		if a.Op == "not" && seen[a.Args[0].id] {
			return True
		}
	}
	switch len(out) {
	case 0:
		return False
	case 1:
		return out[0]
	}
	return mk("or", BoolSort, out...)
}

func Implies(a, b *Term) *Term {
	if a == True {
		return b
	}
	if a == False || b == True {
		return True
	}
	if b == False {
		return Not(a)
	}
	return mk("=>", BoolSort, a, b)
}

func Eq(a, b *Term) *Term {
	if a == b {
		return True
	}
	if a.Sort != b.Sort {
		panic(fmt.Sprintf("Eq sort mismatch %s vs %s (%s, %s)", a.Sort, b.Sort, a.Short(), b.Short()))
	}
	if a.Op == "int" && b.Op == "int" {
		return BoolLit(a.Int.Cmp(b.Int) == 0)
	}
	if a.Sort == BoolSort {
		if a == True {
			return b
		}
		if b == True {
			return a
		}
		if a == False {
			return Not(b)
		}
		if b == False {
			return Not(a)
		}
	}
	if a.id > b.id {
		a, b = b, a
	}
	return mk("=", BoolSort, a, b)
}

func Ite(c, a, b *Term) *Term {
	if c == True {
		return a
	}
	if c == False {
		return b
	}
	if a == b {
		return a
	}
	if a.Sort != b.Sort {
		panic(fmt.Sprintf("Ite sort mismatch %s vs %s", a.Sort, b.Sort))
	}
	if a.Sort == BoolSort {
		if a == True && b == False {
			return c
		}
		if a == False && b == True {
			return Not(c)
		}
	}
	return mk("ite", a.Sort, c, a, b)
}

func Select(a, i *Term) *Term {
	if a.Sort.Kind != SArray {
		panic("select on non-array " + a.Short())
	}
	if a.Sort.Idx != i.Sort {
		panic(fmt.Sprintf("select index sort mismatch: %s vs %s", a.Sort.Idx, i.Sort))
	}
	// read-over-write simplification when indices are syntactically equal or distinct literals
	for a.Op == "store" {
		if a.Args[1] == i {
			return a.Args[2]
		}
		if a.Args[1].Op == "int" && i.Op == "int" {
			a = a.Args[0]
			continue
		}
		break
	}
	return mk("select", a.Sort.Elem, a, i)
}

func Store(a, i, v *Term) *Term {
	if a.Sort.Kind != SArray || a.Sort.Idx != i.Sort || a.Sort.Elem != v.Sort {
		panic(fmt.Sprintf("store sort mismatch: %s [%s] := %s", a.Sort, i.Sort, v.Sort))
	}
	if a.Op == "store" && a.Args[1] == i {
		a = a.Args[0]
	}
	return mk("store", a.Sort, a, i, v)
}

func intBin(op string, a, b *Term) *Term {
	if a.Op == "int" && b.Op == "int" {
		r := new(big.Int)
		switch op {
		case "+":
			return BigLit(r.Add(a.Int, b.Int))
		case "-":
			return BigLit(r.Sub(a.Int, b.Int))
		case "*":
			return BigLit(r.Mul(a.Int, b.Int))
		}
	}
	if op == "+" {
		if a.Op == "int" && a.Int.Sign() == 0 {
			return b
		}
		if b.Op == "int" && b.Int.Sign() == 0 {
			return a
		}
	}
	if op == "-" && b.Op == "int" && b.Int.Sign() == 0 {
		return a
	}
	if op == "*" {
		if a.Op == "int" && a.Int.Cmp(big.NewInt(1)) == 0 {
			return b
		}
		if b.Op == "int" && b.Int.Cmp(big.NewInt(1)) == 0 {
			return a
		}
	}
	return mk(op, IntSort, a, b)
}

func Add(a, b *Term) *Term { return intBin("+", a, b) }
func Sub(a, b *Term) *Term { return intBin("-", a, b) }
func Mul(a, b *Term) *Term { return intBin("*", a, b) }
func Neg(a *Term) *Term    { return Sub(IntLit(0), a) }

func cmpInt(op string, a, b *Term) *Term {
	if a.Op == "int" && b.Op == "int" {
		c := a.Int.Cmp(b.Int)
		switch op {
		case "<":
			return BoolLit(c < 0)
		case "<=":
			return BoolLit(c <= 0)
		case ">":
			return BoolLit(c > 0)
		case ">=":
			return BoolLit(c >= 0)
		}
	}
	if a == b {
		return BoolLit(op == "<=" || op == ">=")
	}
	return mk(op, BoolSort, a, b)
}

func Lt(a, b *Term) *Term { return cmpInt("<", a, b) }
func Le(a, b *Term) *Term { return cmpInt("<=", a, b) }
func Gt(a, b *Term) *Term { return cmpInt(">", a, b) }
func Ge(a, b *Term) *Term { return cmpInt(">=", a, b) }

// Idx is the element index off+i, kept as an uninterpreted application so that quantifier triggers
// contain no arithmetic; its meaning is supplied by ground instances and a triggered axiom (Render).
func Idx(off, i *Term) *Term {
	if off.Op == "int" && off.Int.Sign() == 0 {
		return i
	}
	if off.Op == "int" && i.Op == "int" {
		return Add(off, i)
	}
	return UF("idx", IntSort, off, i)
}

func Forall(bound []*Term, body *Term, pats [][]*Term) *Term {
	if body == True {
		return True
	}
	return TS.intern(&Term{Op: "forall", Args: []*Term{body}, Bound: bound, Pats: pats, Sort: BoolSort})
}
func Exists(bound []*Term, body *Term) *Term {
	if body == False {
		return False
	}
	return TS.intern(&Term{Op: "exists", Args: []*Term{body}, Bound: bound, Sort: BoolSort})
}

// Substitute replaces bound variables (or any terms) according to m.
func Subst(t *Term, m map[*Term]*Term) *Term {
	memo := map[*Term]*Term{}
	var rec func(*Term) *Term
	rec = func(t *Term) *Term {
		if r, ok := m[t]; ok {
			return r
		}
		if len(t.Args) == 0 {
			return t
		}
		if r, ok := memo[t]; ok {
			return r
		}
		changed := false
		na := make([]*Term, len(t.Args))
		for i, a := range t.Args {
			na[i] = rec(a)
			if na[i] != a {
				changed = true
			}
		}
		var r *Term
		if !changed {
			r = t
		} else if t.Op == "forall" || t.Op == "exists" {
			var np [][]*Term
			for _, p := range t.Pats {
				var q []*Term
				for _, x := range p {
					q = append(q, rec(x))
				}
				np = append(np, q)
			}
			r = TS.intern(&Term{Op: t.Op, Args: na, Bound: t.Bound, Pats: np, Sort: t.Sort})
		} else {
			r = rebuild(t, na)
		}
		memo[t] = r
		return r
	}
	return rec(t)
}

func rebuild(t *Term, na []*Term) *Term {
	switch t.Op {
	case "and":
		return And(na...)
	case "or":
		return Or(na...)
	case "not":
		return Not(na[0])
	case "=>":
		return Implies(na[0], na[1])
	case "=":
		return Eq(na[0], na[1])
	case "ite":
		return Ite(na[0], na[1], na[2])
	case "select":
		return Select(na[0], na[1])
	case "store":
		return Store(na[0], na[1], na[2])
	case "+", "-", "*":
		return intBin(t.Op, na[0], na[1])
	case "<", "<=", ">", ">=":
		return cmpInt(t.Op, na[0], na[1])
	}
	return TS.intern(&Term{Op: t.Op, Name: t.Name, Args: na, Sort: t.Sort, Int: t.Int})
}

func (t *Term) Short() string {
	s := t.inline(map[*Term]string{})
	if len(s) > 200 {
		return s[:200] + "…"
	}
	return s
}

func smtInt(b *big.Int) string {
	if b.Sign() < 0 {
		return "(- " + new(big.Int).Neg(b).String() + ")"
	}
	return b.String()
}

// inline prints the term as an S-expression; names maps already-defined nodes to their symbol.
func (t *Term) inline(names map[*Term]string) string {
	if n, ok := names[t]; ok {
		return n
	}
	switch t.Op {
	case "const", "bound":
		return quoteSym(t.Name)
	case "int":
		return smtInt(t.Int)
	case "true", "false":
		return t.Op
	case "fpconst":
		return t.Name
	case "fplit":
		return "(fp #b" + t.Name[0:1] + " #b" + t.Name[1:12] + " #b" + t.Name[12:] + ")"
	case "constarr":
		return "((as const " + t.Sort.String() + ") " + t.Args[0].inline(names) + ")"
	case "fp.add", "fp.sub", "fp.mul", "fp.div":
		return "(" + t.Op + " RNE " + t.Args[0].inline(names) + " " + t.Args[1].inline(names) + ")"
	case "fp.rti": // round to integral, mode in Name
		return "(fp.roundToIntegral " + t.Name + " " + t.Args[0].inline(names) + ")"
	case "uf":
		var sb strings.Builder
		sb.WriteString("(" + quoteSym(t.Name))
		for _, a := range t.Args {
			sb.WriteString(" " + a.inline(names))
		}
		sb.WriteString(")")
		return sb.String()
	case "forall", "exists":
		var sb strings.Builder
		sb.WriteString("(" + t.Op + " (")
		for _, b := range t.Bound {
			sb.WriteString("(" + quoteSym(b.Name) + " " + b.Sort.String() + ")")
		}
		sb.WriteString(") ")
		body := t.Args[0].inline(names)
		if len(t.Pats) > 0 {
			sb.WriteString("(! " + body)
			for _, p := range t.Pats {
				sb.WriteString(" :pattern (")
				for i, x := range p {
					if i > 0 {
						sb.WriteString(" ")
					}
					sb.WriteString(x.inline(names))
				}
				sb.WriteString(")")
			}
			sb.WriteString(")")
		} else {
			sb.WriteString(body)
		}
		sb.WriteString(")")
		return sb.String()
	}
	var sb strings.Builder
	sb.WriteString("(" + t.Op)
	for _, a := range t.Args {
		sb.WriteString(" " + a.inline(names))
	}
	sb.WriteString(")")
	return sb.String()
}

func quoteSym(s string) string {
	return "|" + s + "|"
}

// Script builds a self-contained SMT-LIB script checking satisfiability of the conjunction of asserts.
type Script struct {
	Asserts []*Term
	Observe []*Term          // extra terms whose model value is requested
	Named   map[string]*Term // observation constants: each is declared, asserted equal to its term and reported alone (replay)
	Steps   []BatchStep
}

// BatchStep: one obligation of an incremental script. Perm is asserted for good before the step (the assumptions
// made since the previous obligation), Temp only for this check (path condition and negated goal).
type BatchStep struct {
	Perm []*Term
	Temp []*Term
}

func collect(t *Term, seen map[*Term]bool, order *[]*Term) {
	if seen[t] {
		return
	}
	seen[t] = true
	for _, a := range t.Args {
		collect(a, seen, order)
	}
	for _, p := range t.Pats {
		for _, x := range p {
			collect(x, seen, order)
		}
	}
	*order = append(*order, t)
}

type strLitInfo struct {
	term *Term
	val  string
}

var strLits = map[*Term]string{}     // term -> literal value
var strLitByVal = map[string]*Term{} // value -> term

func StrLit(v string) *Term {
	if t, ok := strLitByVal[v]; ok {
		return t
	}
	t := Const(fmt.Sprintf("strlit!%d!%s", len(strLitByVal), abbreviate(v)), StrSort)
	strLits[t] = v
	strLitByVal[v] = t
	return t
}

func abbreviate(v string) string {
	s := sanitize(v)
	if len(s) > 12 {
		s = s[:12]
	}
	return s
}

func (sc *Script) Render(logic string, extraAxioms []*Term, wantModel bool) string {
	// bound variables made while rendering (index and heap facts) are local to this script: they are numbered from a
	// fixed base, above those of the terms, so that the text does not depend on what was rendered before
	savedBV := TS.fresh["bv"]
	TS.fresh["bv"] = 5000000
	defer func() { TS.fresh["bv"] = savedBV }()
	var order []*Term
	seen := map[*Term]bool{}
	all := append(append([]*Term{}, extraAxioms...), sc.Asserts...)
	var namedKeys []string
	for k := range sc.Named {
		namedKeys = append(namedKeys, k)
	}
	sort.Strings(namedKeys)
	for _, k := range namedKeys {
		all = append(all, sc.Named[k])
	}
	for _, st := range sc.Steps {
		all = append(all, st.Perm...)
		all = append(all, st.Temp...)
	}
	for _, a := range all {
		collect(a, seen, &order)
	}
	// string literals: add distinctness + length facts
	var lits []*Term
	for _, t := range order {
		if _, ok := strLits[t]; ok {
			lits = append(lits, t)
		}
	}
	var litAx []*Term
	if len(lits) > 0 {
		sort.Slice(lits, func(i, j int) bool { return strLits[lits[i]] < strLits[lits[j]] })
		for _, l := range lits {
			v := strLits[l]
			litAx = append(litAx, Eq(UF("str_len", IntSort, l), IntLit(int64(len(v)))))
			for i := 0; i < len(v) && i < 16; i++ {
				litAx = append(litAx, Eq(UF("str_at", IntSort, l, IntLit(int64(i))), IntLit(int64(v[i]))))
			}
		}
		if len(lits) > 1 {
			litAx = append(litAx, mk("distinct", BoolSort, lits...))
		}
		for _, a := range litAx {
			collect(a, seen, &order)
		}
	}
	// meaning of idx(off,i): ground instances always, the triggered axiom when quantifiers are present
	{
		anyQ := false
		var ground []*Term
		for _, t := range order {
			if t.Op == "forall" || t.Op == "exists" {
				anyQ = true
			}
			if t.Op == "uf" && t.Name == "idx" && !t.open {
				ground = append(ground, Eq(t, Add(t.Args[0], t.Args[1])))
			}
		}
		used := len(ground) > 0
		for _, t := range order {
			if t.Op == "uf" && t.Name == "idx" {
				used = true
			}
		}
		if used && anyQ {
			o := BoundVar("o", IntSort)
			i := BoundVar("i", IntSort)
			app := UF("idx", IntSort, o, i)
			ground = append(ground, Forall([]*Term{o, i}, Eq(app, Add(o, i)), [][]*Term{{app}}))
		}
		for _, a := range ground {
			collect(a, seen, &order)
		}
		litAx = append(litAx, ground...)
	}
	// type facts about the contents of symbolic heap arrays (references are allocated, ints in range)
	{
		anyQ := false
		var consts []*Term
		for _, t := range order {
			if t.Op == "forall" || t.Op == "exists" {
				anyQ = true
			}
			if _, ok := heapConsts[t]; ok {
				consts = append(consts, t)
			}
		}
		var facts []*Term
		if len(consts) > 0 {
			for _, t := range order {
				if t.Op != "select" || t.open || t.Sort.Kind == SArray {
					continue
				}
				// full-depth read of a registered constant (possibly through stores)?
				if hc, ok := heapReadRoot(t); ok {
					facts = append(facts, scalarFact(hc.comp, t, hc.wm))
				}
			}
			if anyQ {
				for _, c := range consts {
					hc := heapConsts[c]
					if hc.comp.Kind != "ref" && hc.comp.Kind != "sbase" {
						continue // ranges of integers: ground instances only
					}
					var bound []*Term
					cur := c
					for cur.Sort.Kind == SArray {
						b := BoundVar("h", cur.Sort.Idx)
						bound = append(bound, b)
						cur = mk("select", cur.Sort.Elem, cur, b)
					}
					f := scalarFact(hc.comp, cur, hc.wm)
					if f != True {
						if len(bound) == 0 {
							facts = append(facts, f)
						} else {
							facts = append(facts, Forall(bound, f, [][]*Term{{cur}}))
						}
					}
				}
			}
		}
		for _, a := range facts {
			collect(a, seen, &order)
		}
		litAx = append(litAx, facts...)
	}
	var sb strings.Builder
	if wantModel {
		sb.WriteString("(set-option :produce-models true)\n")
	}
	sb.WriteString("(set-logic " + logic + ")\n")
	sb.WriteString("(declare-sort Str 0)\n(declare-sort Time 0)\n")
	// declarations
	ufSeen := map[string]bool{}
	var consts []*Term
	for _, t := range order {
		switch t.Op {
		case "const":
			consts = append(consts, t)
		case "uf":
			ufSeen[t.Name] = true
		}
	}
	sort.Slice(consts, func(i, j int) bool { return consts[i].Name < consts[j].Name })
	for _, c := range consts {
		fmt.Fprintf(&sb, "(declare-fun %s () %s)\n", quoteSym(c.Name), c.Sort)
	}
	var ufNames []string
	for n := range ufSeen {
		ufNames = append(ufNames, n)
	}
	sort.Strings(ufNames)
	for _, n := range ufNames {
		d := TS.ufs[n]
		var as []string
		for _, a := range d.Args {
			as = append(as, a.String())
		}
		fmt.Fprintf(&sb, "(declare-fun %s (%s) %s)\n", quoteSym(n), strings.Join(as, " "), d.Ret)
	}
	// definitions for closed non-leaf nodes referenced more than once
	refc := map[*Term]int{}
	for _, t := range order {
		for _, a := range t.Args {
			refc[a]++
		}
	}
	names := map[*Term]string{}
	for _, t := range order {
		if len(t.Args) == 0 || t.open {
			continue
		}
		if refc[t] < 2 {
			continue
		}
		n := fmt.Sprintf("n%d", len(names)+1)
		fmt.Fprintf(&sb, "(define-fun %s () %s %s)\n", n, t.Sort, t.inline(names))
		names[t] = n
	}
	for _, a := range litAx {
		fmt.Fprintf(&sb, "(assert %s)\n", a.inline(names))
	}
	for _, a := range extraAxioms {
		fmt.Fprintf(&sb, "(assert %s)\n", a.inline(names))
	}
	for _, a := range sc.Asserts {
		fmt.Fprintf(&sb, "(assert %s)\n", a.inline(names))
	}
	if len(sc.Steps) > 0 {
		for i, st := range sc.Steps {
			for _, a := range st.Perm {
				fmt.Fprintf(&sb, "(assert %s)\n", a.inline(names))
			}
			fmt.Fprintf(&sb, "(echo \"step %d\")\n(push 1)\n", i)
			for _, a := range st.Temp {
				fmt.Fprintf(&sb, "(assert %s)\n", a.inline(names))
			}
			sb.WriteString("(check-sat)\n(pop 1)\n")
		}
		return sb.String()
	}
	for _, k := range namedKeys {
		t := sc.Named[k]
		fmt.Fprintf(&sb, "(declare-fun %s () %s)\n(assert (= %s %s))\n", quoteSym(k), t.Sort, quoteSym(k), t.inline(names))
	}
	sb.WriteString("(check-sat)\n")
	if len(namedKeys) > 0 {
		var qs []string
		for _, k := range namedKeys {
			qs = append(qs, quoteSym(k))
		}
		fmt.Fprintf(&sb, "(get-value (%s))\n", strings.Join(qs, " "))
		return sb.String()
	}
	if wantModel {
		var vals []string
		for _, c := range consts {
			if c.Sort.Kind == SInt || c.Sort.Kind == SBool || c.Sort.Kind == SF64 {
				if _, isLit := strLits[c]; !isLit {
					vals = append(vals, quoteSym(c.Name))
				}
			}
		}
		for _, o := range sc.Observe {
			if seen[o] {
				if termSize(o, 60) < 60 {
					vals = append(vals, o.inline(map[*Term]string{}))
				}
			}
		}
		if len(vals) > 0 {
			if len(vals) > 400 {
				vals = vals[:400]
			}
			fmt.Fprintf(&sb, "(get-value (%s))\n", strings.Join(vals, " "))
		}
	}
	return sb.String()
}

// heapReadRoot: t is select(...select(A, i)..., j) down to a scalar where A, after peeling stores, is a
// registered heap constant. Reads that may hit a stored value are excluded (the stored value has its own facts).
func heapReadRoot(t *Term) (heapConstInfo, bool) {
	cur := t
	for cur.Op == "select" {
		cur = cur.Args[0]
	}
	if hc, ok := heapConsts[cur]; ok {
		return hc, true
	}
	return heapConstInfo{}, false
}

// termSize counts the nodes of t as a tree, giving up at limit.
func termSize(t *Term, limit int) int {
	n := 1
	for _, a := range t.Args {
		if n >= limit {
			return n
		}
		n += termSize(a, limit-n)
	}
	return n
}
