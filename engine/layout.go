package main

// Mapping of Go types to SMT components ("layout") and symbolic values.

import (
	"fmt"
	"go/types"
	"math"
	"math/big"

	"golang.org/x/tools/go/ssa"
)

type Comp struct {
	Suffix string
	Sort   *Sort
	GoT    types.Type // Go type of a scalar component (nil for synthetic ones like slice len)
	Kind   string     // "int","bool","f64","str","time","ref","sbase","soff","slen","scap"
}

func qual(p *types.Package) string { return p.Name() }

func typeStr(t types.Type) string { return types.TypeString(t, qual) }

var layoutCache = map[string][]Comp{}

func isTimeType(t types.Type) bool {
	if n, ok := t.(*types.Named); ok {
		return n.Obj().Pkg() != nil && n.Obj().Pkg().Path() == "time" && n.Obj().Name() == "Time"
	}
	return false
}

func layout(t types.Type) []Comp {
	key := typeStr(t)
	if l, ok := layoutCache[key]; ok {
		return l
	}
	var out []Comp
	if isTimeType(t) {
		out = []Comp{{"", TimeSort, t, "time"}}
		layoutCache[key] = out
		return out
	}
	switch u := t.Underlying().(type) {
	case *types.Basic:
		switch {
		case u.Info()&types.IsBoolean != 0:
			out = []Comp{{"", BoolSort, t, "bool"}}
		case u.Info()&types.IsInteger != 0:
			out = []Comp{{"", IntSort, t, "int"}}
		case u.Info()&types.IsFloat != 0:
			out = []Comp{{"", F64Sort, t, "f64"}}
		case u.Info()&types.IsString != 0:
			out = []Comp{{"", StrSort, t, "str"}}
		case u.Kind() == types.UnsafePointer, u.Kind() == types.UntypedNil:
			out = []Comp{{"", IntSort, t, "ref"}}
		default:
			out = []Comp{{"", IntSort, t, "ref"}} // complex etc: opaque
		}
	case *types.Pointer, *types.Map, *types.Chan, *types.Signature, *types.Interface:
		out = []Comp{{"", IntSort, t, "ref"}}
	case *types.Slice:
		out = []Comp{{".base", IntSort, nil, "sbase"}, {".off", IntSort, nil, "soff"}, {".len", IntSort, nil, "slen"}, {".cap", IntSort, t, "scap"}}
	case *types.Struct:
		for i := 0; i < u.NumFields(); i++ {
			for _, c := range layout(u.Field(i).Type()) {
				out = append(out, Comp{"." + u.Field(i).Name() + c.Suffix, c.Sort, c.GoT, c.Kind})
			}
		}
		if len(out) == 0 {
			// empty struct: no components
			out = []Comp{}
		}
	case *types.Array:
		// arrays by value are modelled as a reference to element storage (value semantics lost: flagged where copied)
		out = []Comp{{"", IntSort, t, "ref"}}
	case *types.Tuple:
		for i := 0; i < u.Len(); i++ {
			for _, c := range layout(u.At(i).Type()) {
				out = append(out, Comp{fmt.Sprintf(".%d%s", i, c.Suffix), c.Sort, c.GoT, c.Kind})
			}
		}
	case *types.TypeParam:
		out = []Comp{{"", IntSort, t, "ref"}}
	default:
		panic("layout: unsupported type " + typeStr(t))
	}
	layoutCache[key] = out
	return out
}

func fieldOffset(st *types.Struct, idx int) int {
	off := 0
	for i := 0; i < idx; i++ {
		off += len(layout(st.Field(i).Type()))
	}
	return off
}

func tupleOffset(tp *types.Tuple, idx int) int {
	off := 0
	for i := 0; i < idx; i++ {
		off += len(layout(tp.At(i).Type()))
	}
	return off
}

type Closure struct {
	Fn       *ssa.Function
	Bindings []Value
}

type LocKind int

const (
	LLocal LocKind = iota
	LRef           // heap object addressed by reference: keys are per-component arrays (Array Int S)
	LElem          // slice/array element: keys are (Array Int (Array Int S)), indexed by base then idx
	LGlobal
)

type Loc struct {
	Kind  LocKind
	Alloc *ssa.Alloc
	Ref   *Term    // LRef: object reference; LElem: base
	Idx   *Term    // LElem
	Keys  []string // heap keys of all components of the container's pointee
	Off   int
	T     types.Type // type of the addressed value
}

type Value struct {
	T   types.Type
	C   []*Term
	Clo *Closure
	Loc *Loc
	Fn  *ssa.Function // static function value
	Bi  *ssa.Builtin
	St  *State // result of a Go call inside a specification: the state in which its objects live
}

func (v Value) one() *Term {
	if len(v.C) != 1 {
		panic(fmt.Sprintf("value of type %s has %d components, expected 1", typeStr(v.T), len(v.C)))
	}
	return v.C[0]
}

var timeZero = Const("time.zero", TimeSort)

func F64Lit(f float64) *Term {
	bits := math.Float64bits(f)
	return TS.intern(&Term{Op: "fplit", Name: fmt.Sprintf("%064b", bits), Sort: F64Sort})
}

func zeroComp(c Comp) *Term {
	switch c.Sort.Kind {
	case SInt:
		return IntLit(0)
	case SBool:
		return False
	case SF64:
		return F64Lit(0)
	case SStr:
		return StrLit("")
	case STime:
		return timeZero
	}
	panic("zeroComp")
}

func zeroValue(t types.Type) Value {
	l := layout(t)
	v := Value{T: t, C: make([]*Term, len(l))}
	for i, c := range l {
		v.C[i] = zeroComp(c)
	}
	return v
}

func freshValue(prefix string, t types.Type) Value {
	l := layout(t)
	v := Value{T: t, C: make([]*Term, len(l))}
	for i, c := range l {
		v.C[i] = Fresh(prefix+c.Suffix, c.Sort)
	}
	return v
}

// heap keys ------------------------------------------------------------------

// registry of the SMT sort behind every heap key ever generated
var keySortReg = map[string]*Sort{}

// kind / Go type of the scalar stored behind a key (for type facts about heap contents)
var keyCompReg = map[string]Comp{}

func regKey(k string, s *Sort) string {
	keySortReg[k] = s
	return k
}

func regKeyC(k string, s *Sort, c Comp) string {
	keySortReg[k] = s
	keyCompReg[k] = c
	return k
}

// keys of the components of the pointee type T when addressed through a reference.
func refKeys(t types.Type) []string {
	if isTimeType(t) {
		return []string{regKey("C:"+typeStr(t)+"#0", ArraySort(IntSort, TimeSort))}
	}
	if st, ok := t.Underlying().(*types.Struct); ok {
		var out []string
		name := typeStr(t)
		for i := 0; i < st.NumFields(); i++ {
			l := layout(st.Field(i).Type())
			for j := range l {
				out = append(out, regKeyC(fmt.Sprintf("F:%s.%s#%d", name, st.Field(i).Name(), j), ArraySort(IntSort, l[j].Sort), l[j]))
			}
		}
		return out
	}
	l := layout(t)
	out := make([]string, len(l))
	for j := range l {
		out[j] = regKeyC(fmt.Sprintf("C:%s#%d", typeStr(t), j), ArraySort(IntSort, l[j].Sort), l[j])
	}
	return out
}

func elemKeys(t types.Type) []string {
	l := layout(t)
	out := make([]string, len(l))
	for j := range l {
		out[j] = regKeyC(fmt.Sprintf("E:%s#%d", typeStr(t), j), ArraySort(IntSort, ArraySort(IntSort, l[j].Sort)), l[j])
	}
	return out
}

func globalKeys(g *ssa.Global) []string {
	t := g.Type().(*types.Pointer).Elem()
	l := layout(t)
	out := make([]string, len(l))
	for j := range l {
		out[j] = regKeyC(fmt.Sprintf("G:%s.%s#%d", g.Pkg.Pkg.Name(), g.Name(), j), l[j].Sort, l[j])
	}
	return out
}

func mapKeys(m *types.Map) (dom string, ln string, vals []string) {
	base := typeStr(m.Key()) + "→" + typeStr(m.Elem())
	dom = "MD:" + base
	ln = "ML:" + base
	kl := layout(m.Key())
	var ks *Sort
	if len(kl) == 1 {
		ks = kl[0].Sort
	} else {
		ks = IntSort
	}
	regKey(dom, ArraySort(IntSort, ArraySort(ks, BoolSort)))
	regKey(ln, ArraySort(IntSort, IntSort))
	l := layout(m.Elem())
	for j := range l {
		vals = append(vals, regKeyC(fmt.Sprintf("MV:%s#%d", base, j), ArraySort(IntSort, ArraySort(ks, l[j].Sort)), l[j]))
	}
	return
}

// integer ranges ---------------------------------------------------------------

func intRange(t types.Type) (lo, hi *big.Int, ok bool) {
	b, isb := t.Underlying().(*types.Basic)
	if !isb || b.Info()&types.IsInteger == 0 {
		return nil, nil, false
	}
	bits := 64
	signed := true
	switch b.Kind() {
	case types.Int8:
		bits = 8
	case types.Int16:
		bits = 16
	case types.Int32:
		bits = 32
	case types.Uint8:
		bits, signed = 8, false
	case types.Uint16:
		bits, signed = 16, false
	case types.Uint32:
		bits, signed = 32, false
	case types.Uint, types.Uint64, types.Uintptr:
		bits, signed = 64, false
	}
	one := big.NewInt(1)
	if signed {
		hi = new(big.Int).Sub(new(big.Int).Lsh(one, uint(bits-1)), one)
		lo = new(big.Int).Neg(new(big.Int).Lsh(one, uint(bits-1)))
	} else {
		lo = big.NewInt(0)
		hi = new(big.Int).Sub(new(big.Int).Lsh(one, uint(bits)), one)
	}
	return lo, hi, true
}

// wrap brings a mathematical result back into the range of integer type t.
// single: the value is at most one period outside the range (add/sub of in-range operands).
func wrapInt(x *Term, t types.Type, single bool) *Term {
	lo, hi, ok := intRange(t)
	if !ok {
		return x
	}
	if x.Op == "int" {
		period := new(big.Int).Add(new(big.Int).Sub(hi, lo), big.NewInt(1))
		v := new(big.Int).Sub(x.Int, lo)
		v.Mod(v, period)
		v.Add(v, lo)
		return BigLit(v)
	}
	period := new(big.Int).Add(new(big.Int).Sub(hi, lo), big.NewInt(1))
	if single {
		return Ite(Gt(x, BigLit(hi)), Sub(x, BigLit(period)), Ite(Lt(x, BigLit(lo)), Add(x, BigLit(period)), x))
	}
	// general: ((x - lo) mod period) + lo
	return Add(mk("mod", IntSort, Sub(x, BigLit(lo)), BigLit(period)), BigLit(lo))
}

func inRange(x *Term, t types.Type) *Term {
	lo, hi, ok := intRange(t)
	if !ok {
		return True
	}
	return And(Le(BigLit(lo), x), Le(x, BigLit(hi)))
}

// Go truncated division and remainder over mathematical integers (b != 0).
func TDiv(a, b *Term) *Term {
	if a.Op == "int" && b.Op == "int" && b.Int.Sign() != 0 {
		return BigLit(new(big.Int).Quo(a.Int, b.Int))
	}
	div := func(x, y *Term) *Term { return mk("div", IntSort, x, y) }
	zero := IntLit(0)
	return Ite(Ge(a, zero),
		Ite(Gt(b, zero), div(a, b), Neg(div(a, Neg(b)))),
		Ite(Gt(b, zero), Neg(div(Neg(a), b)), div(Neg(a), Neg(b))))
}

func TMod(a, b *Term) *Term {
	if a.Op == "int" && b.Op == "int" && b.Int.Sign() != 0 {
		return BigLit(new(big.Int).Rem(a.Int, b.Int))
	}
	return Sub(a, Mul(b, TDiv(a, b)))
}

func ConstArray(s *Sort, v *Term) *Term {
	return TS.intern(&Term{Op: "constarr", Args: []*Term{v}, Sort: s})
}

// heap array constants (initial or havocked) with the watermark that bounds the references they hold
type heapConstInfo struct {
	comp Comp
	wm   *Term
}

var heapConsts = map[*Term]heapConstInfo{}

func regHeapConst(t *Term, key string, wm *Term) {
	if c, ok := keyCompReg[key]; ok && wm != nil {
		switch c.Kind {
		case "ref", "sbase", "int", "slen", "soff":
			heapConsts[t] = heapConstInfo{c, wm}
		}
	}
}

func scalarFact(c Comp, t *Term, wm *Term) *Term {
	switch c.Kind {
	case "ref", "sbase":
		return And(Ge(t, IntLit(0)), Le(t, wm))
	case "int":
		return inRange(t, c.GoT)
	case "slen", "soff":
		return Ge(t, IntLit(0))
	}
	return True
}

func f64Of(t *Term) (float64, bool) {
	if t.Op != "fplit" {
		return 0, false
	}
	var bits uint64
	for _, c := range t.Name {
		bits = bits<<1 | uint64(c-'0')
	}
	return math.Float64frombits(bits), true
}

// F64Arith: float64 arithmetic is NOT bit-blasted (probed: mixed with integer reasoning it times out on every
// solver); it is an uninterpreted function of its operands, folded exactly when both are literals.
// Comparisons and classification (NaN, Inf, sign) stay in the SMT FloatingPoint theory.
func F64Arith(op string, a, b *Term) *Term {
	x, okx := f64Of(a)
	y, oky := f64Of(b)
	if okx && oky {
		switch op {
		case "add":
			return F64Lit(x + y)
		case "sub":
			return F64Lit(x - y)
		case "mul":
			return F64Lit(x * y)
		case "div":
			return F64Lit(x / y)
		}
	}
	return UF("f64."+op, F64Sort, a, b)
}

func F64Round(mode string, a *Term) *Term {
	if x, ok := f64Of(a); ok {
		switch mode {
		case "floor":
			return F64Lit(math.Floor(x))
		case "ceil":
			return F64Lit(math.Ceil(x))
		case "trunc":
			return F64Lit(math.Trunc(x))
		}
	}
	return UF("f64."+mode, F64Sort, a)
}

var gcSizes = types.SizesFor("gc", "amd64")

// maxSliceCap: a slice's backing array fits in the address space, so cap*sizeof(elem) <= MaxInt64.
func maxSliceCap(sliceT types.Type) *big.Int {
	max := new(big.Int).Set(maxInt64)
	if sl, ok := sliceT.Underlying().(*types.Slice); ok {
		func() {
			defer func() { recover() }()
			if sz := gcSizes.Sizeof(sl.Elem()); sz > 1 {
				max.Quo(max, big.NewInt(sz))
			}
		}()
	}
	return max
}
