package main

// Bounded stand-ins (the brief allows them where no contract within reach decides a part of a property; they are labelled
// bounded in the evidence and never counted among the discharged obligations).
//
// C18, second half ("the text derived from the syntax tree parses again to a tree that prints identically and evaluates
// identically"): String() of lib/parser/ast.go builds strings, which this engine leaves uninterpreted, and the parser is a
// generated table-driven automaton. The stand-in runs the real parser and the real String() methods on a finite corpus:
// every input of the parser's own fixture table that parses, plus an enumeration of clause combinations (joins, order
// items, limit/offset forms, window frames, set operators, comparison forms, table objects). For every SELECT statement
// and every value expression below a parsed statement: print, parse the printed text, compare the printed text of the
// result and the syntax trees (source positions ignored, names that the language treats case-insensitively compared in
// upper case). The test file is injected with go test -overlay; the repository is not written to.

import (
	"bytes"
	"context"
	_ "embed"
	"encoding/json"
	"fmt"
	"os"
	"os/exec"
	"path/filepath"
	"regexp"
	"strings"
	"time"
)

//go:embed bounded_c18_roundtrip_test.go.txt
var c18RoundTripSrc string

type boundedFailure struct {
	Name    string // obligation-like name: bounded:<check>:<signature>
	Text    string
	Detail  map[string]interface{}
	Confirm string
}

type boundedReport struct {
	Label    string
	Summary  string
	Cases    int
	Failures []boundedFailure
	Err      string
}

var ignoreNullsInsideArgs = regexp.MustCompile(`\b[A-Z_]+\([^()]* IGNORE NULLS\) OVER \(`)

func c18Signature(node, printed, problem string) string {
	if strings.HasPrefix(problem, "printed text does not parse") && ignoreNullsInsideArgs.MatchString(printed) {
		return "analytic-function-prints-IGNORE-NULLS-inside-the-argument-list"
	}
	p := printed
	if len(p) > 100 {
		p = p[:100]
	}
	return node + ":" + p
}

func runC18RoundTrip(repo, dir string) *boundedReport {
	rep := &boundedReport{Label: "C18-roundtrip"}
	srcPath := filepath.Join(dir, "c18_roundtrip_test.go")
	outPath := filepath.Join(dir, "c18_roundtrip.json")
	os.WriteFile(srcPath, []byte(c18RoundTripSrc), 0o644)
	testPath := filepath.Join(repo, "lib", "parser", "zz_verif_c18_test.go")
	ov, _ := json.Marshal(map[string]interface{}{"Replace": map[string]string{testPath: srcPath}})
	ovPath := filepath.Join(dir, "c18_overlay.json")
	os.WriteFile(ovPath, ov, 0o644)
	ctx, cancel := context.WithTimeout(context.Background(), 240*time.Second)
	defer cancel()
	cmd := exec.CommandContext(ctx, "go", "test", "-overlay", ovPath, "-vet=off", "-count=1", "-timeout", "180s", "-run", "^TestVerifC18RoundTrip$", "./lib/parser")
	cmd.Dir = repo
	cmd.Env = append(os.Environ(), "GOFLAGS=-mod=mod", "GOPROXY=off", "GOSUMDB=off", "GOTOOLCHAIN=local", "VERIF_C18_OUT="+outPath)
	var out bytes.Buffer
	cmd.Stdout = &out
	cmd.Stderr = &out
	_ = cmd.Run()
	data, err := os.ReadFile(outPath)
	if err != nil {
		rep.Err = "the round-trip harness produced no result (does lib/parser still compile with its tests?): " + truncate(out.String(), 1500)
		return rep
	}
	var res struct {
		Corpus   int `json:"corpus"`
		Parsed   int `json:"parsed"`
		Distinct int `json:"distinct_nodes"`
		Failures []struct {
			Input, Node, Printed, Problem string
		} `json:"failures"`
	}
	if err := json.Unmarshal(data, &res); err != nil {
		rep.Err = "unreadable harness result: " + err.Error()
		return rep
	}
	rep.Cases = res.Distinct
	rep.Summary = fmt.Sprintf("BOUNDED (not a proof) print/re-parse round trip on the real parser and String() methods: %d corpus inputs (fixture table of lib/parser/parser_test.go + generated clause combinations), %d parse, %d distinct SELECT statements and value expressions round-tripped, %d fail", res.Corpus, res.Parsed, res.Distinct, len(res.Failures))
	seen := map[string]bool{}
	for _, f := range res.Failures {
		sig := c18Signature(f.Node, f.Printed, f.Problem)
		name := "bounded:C18-roundtrip:" + sig
		if seen[name] {
			continue
		}
		seen[name] = true
		rep.Failures = append(rep.Failures, boundedFailure{
			Name: name,
			Text: fmt.Sprintf("%s printed as %q (from the input %q): %s", f.Node, f.Printed, f.Input, truncate(f.Problem, 400)),
			Detail: map[string]interface{}{"input": f.Input, "node": f.Node, "printed": f.Printed, "problem": f.Problem,
				"rerun": "go test -overlay <overlay mapping lib/parser/zz_verif_c18_test.go to /verif/engine/bounded_c18_roundtrip_test.go.txt> -vet=off -run '^TestVerifC18RoundTrip$' ./lib/parser"},
			Confirm: "observed on the real code: the harness runs parser.Parse and the String() methods of the working tree",
		})
	}
	return rep
}
