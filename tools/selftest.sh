#!/bin/sh
# Must-fail / must-stay-silent corpus. Each mutant is applied to a scratch worktree of /repo (outside /repo and /verif),
# the named property check is run against it and must report a VIOLATION (exit 1); refactors must exit 0.
# usage: tools/selftest.sh [name-filter]
export GOFLAGS=-mod=mod GOPROXY=off GOSUMDB=off GOTOOLCHAIN=local
fail=0
run() { # kind patch
  kind=$1; patch=$2
  prop=$(basename "$(dirname "$patch")")
  wt=$(mktemp -d /tmp/csvqvc-selftest-XXXXXX)
  git -C /repo worktree add -q --detach "$wt" HEAD >/dev/null 2>&1
  if ! git -C "$wt" apply "$patch" 2>/dev/null; then echo "SELFTEST-ERROR $patch does not apply"; fail=1; git -C /repo worktree remove --force "$wt"; return; fi
  out=$(/verif/bin/csvqvc check "$prop" --repo "$wt" --verif /verif --noevidence 2>&1); code=$?
  git -C /repo worktree remove --force "$wt"; rm -rf "$wt"
  if [ "$kind" = mutant ]; then
    if [ $code -eq 1 ]; then echo "caught   $patch: $(echo "$out" | grep -m1 'failed obligation' | cut -c1-150)"; else echo "MISSED   $patch (exit $code)"; echo "$out" | tail -3; fail=1; fi
  else
    if [ $code -eq 0 ]; then echo "silent   $patch"; else echo "FALSE-ALARM $patch (exit $code)"; echo "$out" | grep -m3 -E 'VIOLATION|failed|ERROR|LOST'; fail=1; fi
  fi
}
for p in /verif/selftest/mutants/*/*.patch; do [ -e "$p" ] || continue; case "$p" in *"$1"*) run mutant "$p";; esac; done
for p in /verif/selftest/refactors/*/*.patch; do [ -e "$p" ] || continue; case "$p" in *"$1"*) run refactor "$p";; esac; done
git -C /repo worktree prune
exit $fail
