#!/usr/bin/env python3
# Generates /verif/MANIFEST.json from the table below (kept in one place so the file stays valid).
import json, subprocess
claimed = {
 "C07": ("Offset, Limit (number, percent, WITH TIES), SortValue/SortValues.EquivalentTo proved against the property-level postconditions for all inputs; Evaluate's frame and sort.Sort are assumed", "4 C07"),
 "C01": ("the commit protocol of Transaction.Commit is proved on ghost state: every table image is written into a file that was truncated and rewound, and no file swap (Container.Commit) starts before all images are written, so a failure while encoding leaves every table file as it was; Handler.commit / close and Container.Commit / Close carry the file-system effect (ghost file system); the composition over every program and termination point (Processor.Execute, cli deferred rollback) is outside", "4 C01"),
 "C03": ("row plumbing of SELECT proved for all inputs: WHERE/HAVING compaction keeps exactly the rows whose slot is set, in order (and the slot is set iff the condition is TRUE), select-list projection (Fix) and its per-row worker, USING/NATURAL column merge worker, concatenation helpers, worker partition (RecordRange) and merge order (MergeRecordSetList), OFFSET; expression evaluation, header resolution and the goroutine runner are assumed contracts", "4 C03"),
 "C05": ("INSERT path proved end to end below field resolution (rows appended in the given order, each given column filled from its value, other columns NULL, count = rows given); REPLACE: columns rewritten are non-key given columns, unmatched rows appended in the given order; helpers RecordSet.Merge / Copy; UPDATE/DELETE/ALTER front halves are outside", "4 C05"),
 "C06": ("the coercion ladder (CompareCombinedly) and the six operators, Identical, Compare, Equivalent, the value readings (To*), Kleene connectives of the ternary dependency, BETWEEN / AND / OR / NOT / IS expansions and integer/float arithmetic are proved against the documented rules; the consistency laws of the statement are lemmas over those contracts", "4 C06"),
 "C08": ("data-changing statements (Insert, Update, Replace, Delete, AddColumns, DropColumns, RenameColumn) never store into cell storage that existed before the statement (the cells shared with the cached table, cursors and restore points): every such store is proved to hit an object the statement allocated; Record.Copy / RecordSet.Copy give fresh spines over shared cells; a failed CREATE (NewHandlerForCreate) leaves no file; the publication-implies-success protocol is not yet under contract", "4 C08"),
 "C10": ("crash-point invariant of Handler.commit on a ghost file system: after every file-system call the table path holds the complete old or the complete new contents, on success the new ones; FileForUpdate routes writes to the temp file; Container.Commit delegates to commit for the registered handler; POSIX semantics of rename/remove/create are assumed contracts", "4 C10"),
 "C11": ("on a ghost file system: Handler.close / closeWithErrors / commit and ControlFile.Close leave none of the handler's control files and never touch the table of a read or update handler; every failed acquisition (NewHandlerFor*, TryCreate*) leaves no control file of its own; the transient lock of TryCreateRLockFile is removed on every path; signals and the retry loop (select) are outside", "4 C11"),
 "C12": ("determinism as functionality of proved postconditions that mention neither the worker count nor a map order: RecordRange tiles [0,n) for every worker count (cover, disjoint, ordered lemmas), MergeRecordSetList concatenates in list order, GROUP BY assembles buckets in worker order, REPLACE appends unmatched rows in the given order, each Run worker (Fix, joinViews, filter, group, LTSV padding) writes only its own row; the goroutine runner and the four hand-rolled worker loops are assumed", "4 C12"),
 "C13": ("thin: write frames of the closures run by GoroutineTaskManager.Run (Fix, joinViews merge, filter slots, GROUP BY bucket, LTSV padding): each is proved to write only the slot / row of its own index, and RecordRange gives the workers pairwise disjoint index ranges; loader goroutines, channels, sync.Pool and the Go memory model are outside", "4 C13"),
 "C14": ("pool ownership: every conversion (To*) returns a fresh object or a singleton, and at every value.Discard call site of lib/query and lib/value (62 functions, zero-annotation sweep) the discarded value is proved to be a temporary allocated by the current activation (never a literal of the syntax tree, a table cell or a variable); the no-store-through-syntax-tree-slices frame is not yet under contract", "4 C14"),
 "C15": ("block stack and lookups: CreateChild puts one new block in front of the parent's (shared, unchanged) blocks; GetVariable / SubstituteVariableDirectly / FetchCursor act on the innermost block that declares the name and touch no other block (ghost model of the sync.Map-backed block maps); control-flow mapping of WHILE / function calls is not yet under contract", "4 C15"),
 "C19": ("no-panic sweep: index/slice bounds, nil dereference, integer division, type assertion and make() obligations generated without annotations for ~210 functions (all built-in functions of function.go, the FORMAT interpreter, OFFSET/LIMIT, cursors, analytic helpers, lib/file handlers); those that discharge (about 900) are claimed, the others are listed as unclaimed; loaders' rectangularity and hangs are outside", "4 C19"),
 "C17": ("window frames (WindowFrameSet and its two helpers: one frame per row with the bounds the ROWS clause prescribes, whole partition only without ORDER BY or for UNBOUNDED..UNBOUNDED) and NTILE (closed form of the tile of every row, for all partition sizes and tile counts) are proved; sort-key equivalence/ordering lemmas are shared with C07; ranking, FIRST/LAST/NTH_VALUE, LAG/LEAD and aggregates OVER are not yet under contract", "4 C17"),
 "C20": ("cacheViewFromFile proved against a ghost protocol: a table already cached is served from the cache without touching the file unless an update is requested on a copy loaded for reading (the documented reload, which disposes the old copy first and loads once under an update handler); a miss loads exactly once; every handler opened on a failing path is closed; cached FileInfo.ForUpdate agrees with the handler kind. ViewMap (sync.Map) operations and ReleaseResources clearing the cache at COMMIT/ROLLBACK are assumed contracts; cross-process interleavings are outside", "4 C20"),
 "C04": ("partial: SortValue/SortValues.EquivalentTo and the sort-key lemmas (shared with C07), the GROUP BY bucket assembly worker (every bucket's rows are exactly the indices recorded for its key, in order) and the coercion ladder behind value equality (C06) are proved; SerializeKey / SerializeComparisonKeys / Distinguish build strings (uninterpreted in this engine) and the aggregate functions are not under contract", "4 C04"),
 "C18": ("the scanner is total: every Scanner method keeps 0 <= srcPos <= len(src), never indexes outside the text (bounds/nil obligations), reports EOF only at the end of the text and consumes at least one rune for every other token; every loop of the scanner and the recursion of Scan over comments carry a termination measure (len(src) - srcPos) that is proved to decrease; the line and column a token (and hence a syntax error) carries lie inside the text. The goyacc-generated driver (parser.go) and the print/re-parse round trip (String() of ast.go: strings are uninterpreted in this engine) are outside", "4 C18"),
 "C02": ("thin: (1) encodeCSV is proved to ask for enclosure of every header and cell that contains a line break, against the assumed contract of the go-text CSV writer (which encloses a field on its own only for the delimiter or a quotation mark); (2) FileInfo.ExportOptions is proved to feed every dialect attribute detected at load time (format, delimiter, positions, single-line, encoding, line break, header, enclose-all, JSON escape, pretty print) back into the writer's options; (3) Transaction.Commit writes the ending line break only for files that are not fixed-length single-line by the file's own flag. The encoders' byte-level output and the loaders (strings/bytes are uninterpreted here) are outside: no round-trip theorem is claimed", "4 C02"),
 "C16": ("Cursor.Fetch/Close/IsOpen/IsInRange/Count/Pointer proved against an abstract (snapshot, position) view for all positions and offsets, with machine integer arithmetic modelled exactly", "4 C16"),
}
na = {
 "C09": "quantifies over interleavings of several processes; no per-function contract expresses it (DESIGN.md section 5)",
}
all_ids = ["C%02d" % i for i in range(1, 21)]
checks = []
for pid, (text, ref) in sorted(claimed.items()):
    checks.append({
        "property_id": pid,
        "quick_cmd": "bin/csvqvc check %s --tier quick" % pid,
        "thorough_cmd": "bin/csvqvc check %s --tier thorough" % pid,
        "evidence_file": "evidence/%s.json" % pid,
        "engine": "csvqvc",
        "level_claimed": {"category": "proof", "text": text, "design_ref": "DESIGN.md section " + ref},
        "level_note": "trusted: the VC generator, go/ssa lowering, the SMT solvers, assumed contracts (trusted/axiom/invariant items listed in the evidence file), uninterpreted float arithmetic and string functions",
        "technique": "contract-based deductive verification: weakest-precondition style VCs generated from go/ssa of the real functions, discharged by z3/cvc5",
    })
for pid in all_ids:
    if pid not in claimed and pid not in na:
        na[pid] = "contracts for this property are not written yet (engine under construction); no claim is made"
m = {
 "version": 1,
 "setup_cmd": "cd /verif/engine && GOFLAGS=-mod=mod GOPROXY=off GOSUMDB=off GOTOOLCHAIN=local go build -o /verif/bin/csvqvc .",
 "hooks": {"guard": "verif", "enable": "go build -tags verif ./... (the guarded files lib/*/zz_verif_contracts.go are comment-only contract files)",
           "baseline_off_cmd": "cd /repo && go test -vet=off -count=1 -timeout 25m ./...",
           "source_commits": subprocess.run(["git", "-C", "/repo", "log", "--format=%h", "--grep=^verif:"], capture_output=True, text=True).stdout.split(),
           "add_only": True},
 "engines": [{"name": "csvqvc", "path": "engine/", "serves_properties": sorted(claimed), "kind_free_text": "VC generator over go/ssa (NaiveForm) for contracts kept as //@ comments; obligations discharged by z3-new, z3, cvc5 (raced)"}],
 "checks": checks,
 "notes": "see DESIGN.md; known_findings.txt lists repaired defects (fix: commits in /repo)",
 "not_applicable": [{"property_id": k, "reason": v} for k, v in sorted(na.items())],
}
json.dump(m, open("/verif/MANIFEST.json", "w"), indent=1)
print("claimed:", sorted(claimed))
