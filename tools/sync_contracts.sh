#!/bin/sh
# Copies the contract mirror (/verif/contracts/<pkg>[_<part>].go) to /repo/lib/<pkg>/zz_verif_contracts[_<part>].go.
# The files in /repo are what the checks read; the mirror is only a fallback (see DESIGN.md section 8).
set -e
for f in /verif/contracts/*.go; do
  n=$(basename "$f" .go)
  case "$n" in
    *_*) pkg=${n%%_*}; part=${n#*_}; cp "$f" "/repo/lib/$pkg/zz_verif_contracts_$part.go";;
    *) cp "$f" "/repo/lib/$n/zz_verif_contracts.go";;
  esac
done
