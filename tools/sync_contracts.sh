#!/bin/sh
# Copies the contract mirror (/verif/contracts/<pkg>.go) to /repo/lib/<pkg>/zz_verif_contracts.go.
# The files in /repo are what the checks read; the mirror is only a fallback (see DESIGN.md section 8).
set -e
for f in /verif/contracts/*.go; do
  pkg=$(basename "$f" .go)
  cp "$f" "/repo/lib/$pkg/zz_verif_contracts.go"
done
