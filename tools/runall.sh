#!/bin/sh
# Runs the quick check of every claimed property against /repo (rewrites evidence/*.json).
cd /verif
for p in $(python3 -c "import json;print(' '.join(c['property_id'] for c in json.load(open('MANIFEST.json'))['checks']))"); do
  bin/csvqvc check $p --tier quick 2>&1 | grep -E "^property|VIOLATION|ENGINE|BINDING|KNOWN" 
done
