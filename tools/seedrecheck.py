#!/usr/bin/env python3
"""seedrecheck.py <seeded-id>... : re-run seedcheck on /verif/seeded/<id> against the current /repo HEAD and /verif, update meta.json."""
import json, os, subprocess, sys
for sid in sys.argv[1:]:
    d = f"/verif/seeded/{sid}"
    prop = sid.split("-")[0]
    meta = json.load(open(os.path.join(d, "meta.json")))
    extra = [c for c in meta.get("checks_run", {}) if c != prop]
    r = subprocess.run(["python3", "/verif/tools/seedcheck.py", prop, d, prop] + extra, capture_output=True, text=True)
    try:
        res = json.loads(r.stdout)
    except Exception:
        print(sid, "seedcheck failed:", r.stdout[-300:], r.stderr[-300:]); continue
    ok = bool(res.get("demo_passes_without") and res.get("suite_passes_with") and res.get("demo_fails_with"))
    caught = [c for c, v in res["checks"].items() if v["exit"] == 1]
    meta["checks_run"] = {c: {"exit": v["exit"], "failed_obligations": [l.strip() for l in v["violations"]]} for c, v in res["checks"].items()}
    meta["caught_by"] = caught
    meta["still_breaks_property_on_current_head"] = ok
    json.dump(meta, open(os.path.join(d, "meta.json"), "w"), indent=1)
    print(f"{sid}: confirmed={ok} caught_by={caught}", flush=True)
