#!/usr/bin/env python3
"""Confirm a seeded mutation (tests pass with it, demo fails with it, demo passes without it) in a scratch
worktree, then run the property's quick check against the mutated tree. usage: seedcheck.py <prop> <dir-with-patch.diff> [check-prop...]"""
import json, os, re, shutil, subprocess, sys, tempfile
env = dict(os.environ, GOFLAGS="-mod=mod", GOPROXY="off", GOSUMDB="off", GOTOOLCHAIN="local")
def sh(cmd, cwd=None, timeout=1200):
    p = subprocess.run(cmd, shell=True, cwd=cwd, env=env, capture_output=True, text=True, timeout=timeout)
    return p.returncode, (p.stdout + p.stderr)
prop, d = sys.argv[1], os.path.abspath(sys.argv[2])
checks = sys.argv[3:] or [prop]
wt = tempfile.mkdtemp(prefix="seedchk-", dir="/tmp")
os.rmdir(wt)
rc, out = sh(f"git -C /repo worktree add -q --detach {wt} HEAD")
assert rc == 0, out
res = {"property": prop, "dir": d}
try:
    demo_go = os.path.join(d, "demo_test.go"); demo_sh = os.path.join(d, "demo.sh")
    def run_demo():
        if os.path.exists(demo_go):
            src = open(demo_go).read()
            pkg = re.search(r"^package (\w+)", src, re.M).group(1)
            pkgdir = {"main": "."}.get(pkg, "lib/" + pkg.replace("_test", ""))
            dst = os.path.join(wt, pkgdir, "zz_demo_test.go")
            shutil.copy(demo_go, dst)
            names = re.findall(r"^func (Test\w+)\(", src, re.M)
            race = "-race " if (os.environ.get("SEED_RACE") or "race detected" in open(os.path.join(d, "meta.json")).read() or "-race" in open(os.path.join(d, "meta.json")).read()) else ""
            rc, out = sh(f"go test {race}-vet=off -count=1 -run '^({'|'.join(names)})$' ./{pkgdir}", cwd=wt)
            os.remove(dst)
            return rc, out
        else:
            txt = open(demo_sh).read()
            arg = wt
            m = re.search(r"\$\{1:-[^\n]*csvq-bin", txt)
            rcb, outb = sh(f"go build -o {wt}/csvq-bin .", cwd=wt)
            if m:
                # the script takes the CLI binary, not the tree
                arg = f"{wt}/csvq-bin"
            rc, out = sh(f"SEED_TREE={wt} ROOT={wt} CSVQ_SRC={wt} SRC={wt} TREE={wt} REPO={wt} CSVQ={wt}/csvq-bin sh {demo_sh} {arg}", cwd=wt)
            sh(f"rm -f {wt}/csvq-bin")
            return rc, out
    rc0, out0 = run_demo()
    res["demo_passes_without"] = rc0 == 0
    rc, out = sh(f"git apply {d}/patch.diff", cwd=wt)
    assert rc == 0, "patch does not apply: " + out
    rcb, outb = sh("go build ./...", cwd=wt)
    res["builds"] = rcb == 0
    rct, outt = sh("TMPDIR=$(mktemp -d) go test -vet=off -count=1 ./...", cwd=wt)
    res["suite_passes_with"] = rct == 0
    if rct != 0:
        res["suite_output"] = outt[-1500:]
    rc1, out1 = run_demo()
    res["demo_fails_with"] = rc1 != 0
    res["demo_output_with"] = out1[-800:]
    res["checks"] = {}
    for c in checks:
        rc, out = sh(f"/verif/bin/csvqvc check {c} --repo {wt} --verif /verif --noevidence", cwd="/verif")
        res["checks"][c] = {"exit": rc, "violations": [l for l in out.splitlines() if "failed obligation" in l][:5], "tail": out.splitlines()[-1:] }
finally:
    sh(f"git -C /repo worktree remove --force {wt}"); shutil.rmtree(wt, ignore_errors=True); sh("git -C /repo worktree prune")
print(json.dumps(res, indent=1))
