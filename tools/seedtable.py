#!/usr/bin/env python3
"""Prints a markdown table of /verif/seeded: per seed the property, what it changes, and which checks report it."""
import json, os, re
rows = []
for d in sorted(os.listdir('/verif/seeded')):
    p = os.path.join('/verif/seeded', d, 'meta.json')
    if not os.path.isfile(p):
        continue
    m = json.load(open(p))
    summ = re.sub(r'\s+', ' ', m.get('summary', ''))[:150]
    caught = m.get('caught_by') or []
    obl = ''
    for c, v in (m.get('checks_run') or {}).items():
        if v.get('exit') == 1 and v.get('failed_obligations'):
            o = v['failed_obligations'][0]
            mm = re.search(r'failed obligation (\S+)', o)
            obl = mm.group(1) if mm else ''
            break
    still = m.get('still_breaks_property_on_current_head', True)
    rows.append((d, summ, ', '.join(caught) if caught else ('- (no longer property-breaking after a fix)' if not still else 'MISSED'), obl[:90]))
print('| seed | change | reported by | first failing obligation |')
print('|---|---|---|---|')
for r in rows:
    print('| %s | %s | %s | `%s` |' % r)
n = len(rows); c = sum(1 for r in rows if not r[2].startswith('MISSED') and not r[2].startswith('-'))
print()
print('%d seeds, %d reported by at least one check, %d missed, %d no longer property-breaking' % (n, c, sum(1 for r in rows if r[2].startswith('MISSED')), sum(1 for r in rows if r[2].startswith('-'))))
