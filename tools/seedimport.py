#!/usr/bin/env python3
"""seedimport.py <prop> <agent-out-dir> [extra check props...]: confirm each mut*/ with seedcheck and keep the confirmed ones under /verif/seeded/."""
import json, os, shutil, subprocess, sys
prop, out = sys.argv[1], sys.argv[2]
extra = sys.argv[3:]
for m in sorted(os.listdir(out)):
    d = os.path.join(out, m)
    if not os.path.isfile(os.path.join(d, "patch.diff")):
        continue
    r = subprocess.run(["python3", "/verif/tools/seedcheck.py", prop, d, prop] + extra, capture_output=True, text=True)
    try:
        res = json.loads(r.stdout)
    except Exception:
        print(m, "seedcheck failed:", r.stdout[-500:], r.stderr[-500:]); continue
    ok = res.get("demo_passes_without") and res.get("suite_passes_with") and res.get("demo_fails_with")
    caught = [c for c, v in res["checks"].items() if v["exit"] == 1]
    print(f"{prop}-{m}: confirmed={ok} caught_by={caught}")
    for c, v in res["checks"].items():
        for l in v["violations"][:2]:
            print("    ", c, l.strip()[:170])
    if not ok:
        print("    NOT KEPT:", {k: res.get(k) for k in ("demo_passes_without", "suite_passes_with", "demo_fails_with")}, res.get("suite_output", "")[-300:])
        continue
    dst = f"/verif/seeded/{prop}-{m}"
    os.makedirs(dst, exist_ok=True)
    for f in os.listdir(d):
        if f in ("patch.diff", "demo_test.go", "demo.sh"):
            shutil.copy(os.path.join(d, f), dst)
    meta = {}
    try:
        meta = json.load(open(os.path.join(d, "meta.json")))
    except Exception:
        pass
    meta.update({"property": prop, "confirmed_by_me": "tools/seedcheck.py in a scratch worktree of /repo HEAD: suite passes with the change, demo fails with it, demo passes without it",
                 "checks_run": {c: {"exit": v["exit"], "failed_obligations": [l.strip() for l in v["violations"]]} for c, v in res["checks"].items()},
                 "caught_by": caught})
    json.dump(meta, open(os.path.join(dst, "meta.json"), "w"), indent=1)
